#![no_main]
use libfuzzer_sys::fuzz_target;

// Same oracle as the proptest search of property C05; see /verif/harness/src/fuzzbridge.rs
fuzz_target!(|data: &[u8]| {
    verif::fuzzbridge::fuzz_one("fz_stream_diff", data);
});
