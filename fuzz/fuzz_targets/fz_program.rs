#![no_main]
use libfuzzer_sys::fuzz_target;

// Structure-aware: the bytes are decoded into an abstract symbol program / chunk list / file
// description, concretised to a VALID stream and judged by the oracle of property C01
// (expected output = direct interpretation of the program). See /verif/harness/src/fuzzbridge.rs
fuzz_target!(|data: &[u8]| {
    verif::fuzzbridge::fuzz_one("fz_program", data);
});
