#![no_main]
use libfuzzer_sys::fuzz_target;

// Same oracle as the proptest search of property C07; see /verif/harness/src/fuzzbridge.rs
fuzz_target!(|data: &[u8]| {
    verif::fuzzbridge::fuzz_one("fz_total", data);
});
