#![no_main]
use libfuzzer_sys::fuzz_target;

// Same oracle as the proptest search of property C06; see /verif/harness/src/fuzzbridge.rs
fuzz_target!(|data: &[u8]| {
    verif::fuzzbridge::fuzz_one("fz_xz_sealed", data);
});
