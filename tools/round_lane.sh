#!/bin/bash
# tools/round_lane.sh <seeds-root> <ID> <worktree>: confirm the changes <seeds-root>/<ID>/<n> in the given scratch worktree
# (suite still passes, demo fails with / passes without), then try each against the quick check of <ID> on a private harness copy.
ROOT="$1"; P="$2"; WT="$3"
export CARGO_NET_OFFLINE=true
mkdir -p $ROOT/try
LOG=$ROOT/confirm-$P.log; : > $LOG
for d in $ROOT/$P/[0-9]*; do
  [ -f "$d/patch.diff" ] || continue
  n=$(basename $d)
  cd $WT && git checkout -q -- . && rm -f tests/demo.rs
  if ! git apply "$d/patch.diff" 2>/dev/null; then echo "$P/$n apply=FAIL" >> "$LOG"; continue; fi
  suite=$(cargo test --offline 2>&1 | grep -E "^test result" | awk '{p+=$4; f+=$6} END {print p"/"f}')
  cp "$d/demo.rs" tests/demo.rs
  cargo test --offline --features stream,raw_decoder --test demo >$ROOT/try/$P-$n.demo_with.log 2>&1; with=$?
  git checkout -q -- .
  cargo test --offline --features stream,raw_decoder --test demo >$ROOT/try/$P-$n.demo_without.log 2>&1; without=$?
  rm -f tests/demo.rs
  echo "$P/$n suite_pass/fail=$suite demo_with_change_exit=$with demo_without_exit=$without" >> "$LOG"
  /verif/tools/try_seed_private.sh $d/patch.diff $P r7-$P-$n > $ROOT/try/$P-$n.log 2>&1
done
echo "LANE-DONE $P"; cat $LOG; tail -n 2 $ROOT/try/$P-*.log | grep -E "==>|VIOLATION|exit="
