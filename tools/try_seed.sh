#!/bin/sh
# tools/try_seed.sh <patch.diff> <ID> [tier]  — apply a seeded change to /repo, run the check, always revert.
set -u
P="$1"; ID="$2"; TIER="${3:-quick}"
cd /repo || exit 2
if ! git diff --quiet; then echo "/repo has local modifications; refusing" >&2; exit 2; fi
trap 'git -C /repo checkout -- . ; git -C /repo clean -fdq -- src' EXIT INT TERM
git apply "$P" || { echo "patch does not apply" >&2; exit 2; }
cd /verif && ./check "$ID" "$TIER"; rc=$?
echo "exit=$rc"
exit $rc
