#!/usr/bin/env python3
"""tools/mutate.py <out-dir> [max-candidates] [jobs]

Operator-level mutation sampling of /repo/src (complements the hand-made seeded
changes): generate single-line mutants (relational / arithmetic / logical
operator swaps, constants +-1, boolean flips, statement deletion), keep those
that still compile and pass the pinned 59-test suite (in scratch worktrees under
/tmp, never in /repo), and write each survivor as <out-dir>/<n>/patch.diff +
info.json. tools/mutant_matrix.sh then runs the quick checks against them.
"""
import hashlib, json, os, random, re, subprocess, sys
from concurrent.futures import ThreadPoolExecutor

OUT = sys.argv[1]
MAXC = int(sys.argv[2]) if len(sys.argv) > 2 else 600
JOBS = int(sys.argv[3]) if len(sys.argv) > 3 else 6
REPO = "/repo"
ENV = dict(os.environ, CARGO_NET_OFFLINE="true")

files = subprocess.run(["git", "-C", REPO, "ls-files", "src"], capture_output=True, text=True).stdout.split()
files = [f for f in files if f.endswith(".rs") and f not in ("src/util/mod.rs", "src/macros.rs")]

SKIP_PREFIX = ("//", "#[", "#![", "use ", "pub use", "mod ", "pub mod", "lzma_info!", "lzma_debug!", "lzma_trace!",
               "assert", "debug_assert", "extern ", "macro_rules", "}", "{", ")", "]")

def code_spans(line):
    """yield (start,end) of the parts of the line outside string/char literals and comments"""
    spans, i, n, start = [], 0, len(line), 0
    while i < n:
        c = line[i]
        if c == '"':
            spans.append((start, i))
            i += 1
            while i < n and line[i] != '"':
                i += 2 if line[i] == '\\' else 1
            i += 1
            start = i
        elif line.startswith("//", i):
            spans.append((start, i))
            return spans
        else:
            i += 1
    spans.append((start, n))
    return spans

REL = {" <= ": [" < "], " < ": [" <= "], " >= ": [" > "], " > ": [" >= "], " == ": [" != "], " != ": [" == "]}
ARI = {" + ": [" - "], " - ": [" + "], " << ": [" >> "], " >> ": [" << "], " && ": [" || "], " || ": [" && "],
       " & ": [" | "], " | ": [" & "], " += ": [" -= "], " -= ": [" += "], " * ": [" + "], " % ": [" / "]}

def mutants_of_line(line):
    out = []
    for (a, b) in code_spans(line):
        seg = line[a:b]
        for table, kind in ((REL, "relational"), (ARI, "operator")):
            for tok, reps in table.items():
                for m in re.finditer(re.escape(tok), seg):
                    # skip generics / arrows
                    for r in reps:
                        s = a + m.start()
                        out.append((kind, tok.strip() + " -> " + r.strip(), line[:s] + r + line[s + len(tok):]))
        for m in re.finditer(r"(?<![\w.])(0x[0-9A-Fa-f_]+|\d[\d_]*)(?![\w.])", seg):
            txt = m.group(1)
            try:
                v = int(txt.replace("_", ""), 0)
            except ValueError:
                continue
            s = a + m.start()
            for nv in (v + 1, v - 1):
                if nv < 0:
                    continue
                new = hex(nv) if txt.startswith("0x") else str(nv)
                out.append(("constant", f"{txt} -> {new}", line[:s] + new + line[s + len(txt):]))
        for m in re.finditer(r"\b(true|false)\b", seg):
            s = a + m.start()
            new = "false" if m.group(1) == "true" else "true"
            out.append(("boolean", f"{m.group(1)} -> {new}", line[:s] + new + line[s + len(m.group(1)):]))
    st = line.strip()
    # statement deletion: single-line assignments / calls
    if st.endswith(";") and not st.startswith(("let ", "return", "break", "continue", "pub ", "const ", "static ", "type ")) \
            and st.count("(") == st.count(")") and "{" not in st and "}" not in st:
        out.append(("delete-statement", st[:60], line[: len(line) - len(line.lstrip())] + "// (deleted)"))
    # negate an if condition
    m = re.match(r"^(\s*(?:\} else )?if )([^{]+?)( \{\s*)$", line)
    if m and " let " not in m.group(2) and not m.group(2).startswith("let "):
        out.append(("negate-if", m.group(2)[:60], f"{m.group(1)}!({m.group(2)}){m.group(3)}"))
    return out

cands = []
for f in files:
    lines = open(os.path.join(REPO, f)).read().split("\n")
    in_test = False
    in_macro = 0
    for i, line in enumerate(lines):
        st = line.strip()
        if st.startswith("#[cfg(test)]"):
            in_test = True
        if in_test:
            continue
        if in_macro:
            in_macro += line.count("(") - line.count(")")
            in_macro = max(in_macro, 0)
            continue
        if st.startswith(("lzma_info!", "lzma_debug!", "lzma_trace!")) and line.count("(") > line.count(")"):
            in_macro = line.count("(") - line.count(")")
            continue
        if not st or st.startswith(SKIP_PREFIX) or st.startswith("///"):
            continue
        if "format!" in st or "Err(error::Error" in st and '"' in st:
            # error texts: not semantic
            pass
        for kind, desc, new in mutants_of_line(line):
            if new != line:
                cands.append({"file": f, "line": i + 1, "kind": kind, "desc": desc, "old": line, "new": new})

random.Random(20261001).shuffle(cands)
print(f"{len(cands)} candidate mutants in {len(files)} files; sampling {min(MAXC, len(cands))}", flush=True)
cands = cands[:MAXC]

os.makedirs(OUT, exist_ok=True)
wts = []
for j in range(JOBS):
    wt = f"/tmp/wtmu{j}"
    subprocess.run(["git", "-C", REPO, "worktree", "remove", "--force", wt], capture_output=True)
    subprocess.run(["git", "-C", REPO, "worktree", "add", "--detach", wt, "HEAD"], capture_output=True, check=True)
    wts.append(wt)

import queue
pool = queue.Queue()
for w in wts:
    pool.put(w)

def try_one(k_c):
    k, c = k_c
    wt = pool.get()
    try:
        path = os.path.join(wt, c["file"])
        src = open(path).read().split("\n")
        assert src[c["line"] - 1] == c["old"]
        src[c["line"] - 1] = c["new"]
        open(path, "w").write("\n".join(src))
        r = subprocess.run(["cargo", "build", "--offline", "--features", "stream,raw_decoder"], cwd=wt, env=ENV, capture_output=True, text=True)
        status = "survived"
        if r.returncode != 0:
            status = "no-compile"
        else:
            try:
                t = subprocess.run(["cargo", "test", "--workspace", "--no-fail-fast", "--offline"], cwd=wt, env=ENV, capture_output=True, text=True, timeout=300)
                passed = sum(int(x) for x in re.findall(r"test result: \w+\. (\d+) passed", t.stdout))
                if t.returncode != 0 or passed < 59:
                    status = "killed-by-suite"
            except subprocess.TimeoutExpired:
                status = "killed-by-suite(timeout)"
        diff = subprocess.run(["git", "-C", wt, "diff"], capture_output=True, text=True).stdout
        subprocess.run(["git", "-C", wt, "checkout", "-q", "--", "."], check=True)
        c["status"] = status
        if status == "survived":
            d = os.path.join(OUT, f"{k:04d}")
            os.makedirs(d, exist_ok=True)
            open(os.path.join(d, "patch.diff"), "w").write(diff)
            json.dump(c, open(os.path.join(d, "info.json"), "w"), indent=1)
        return c
    finally:
        pool.put(wt)

with ThreadPoolExecutor(JOBS) as ex:
    res = list(ex.map(try_one, enumerate(cands)))

for w in wts:
    subprocess.run(["git", "-C", REPO, "worktree", "remove", "--force", w], capture_output=True)
subprocess.run(["git", "-C", REPO, "worktree", "prune"])
from collections import Counter
cnt = Counter(c["status"] for c in res)
json.dump({"candidates": len(res), "status": cnt, "by_kind": Counter(c["kind"] + "/" + c["status"] for c in res)}, open(os.path.join(OUT, "SUMMARY.json"), "w"), indent=1)
print(dict(cnt))
