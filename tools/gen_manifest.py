#!/usr/bin/env python3
"""Regenerate /verif/MANIFEST.json from the table below. Properties whose check
is not wired into harness/src/main.rs yet are listed under not_applicable."""
import json, re, subprocess, os

ROOT = os.path.dirname(os.path.dirname(os.path.abspath(__file__)))
main_rs = open(os.path.join(ROOT, "harness/src/main.rs")).read()
implemented = set(re.findall(r'"(C\d\d)" =>', main_rs))
ids = [json.loads(l)["id"] for l in open(os.path.join(ROOT, "properties.jsonl"))]

TRUST = ("Trusted base: the harness' reference model (symbol-program interpreter, encoder, decoder, LZMA2/XZ writers, CRC tables) "
         "written from the format specifications and cross-checked on every case among its own parts and against liblzma 5.4 where liblzma applies; "
         "rustc; proptest. Exploration, not proof: absence of a counter-example among the generated cases is the claim.")

T = {
 "C01": ("exploration", "5/C01", "generated symbol programs + reference-model oracle (proptest), metamorphic dictionary re-declaration",
         "Generated search over symbol programs x all 225 lc/lp/pb settings x dictionary sizes (window wraps many times for tiny raw dictionaries) x terminations x containers (13-/5-byte header, raw decoder, re-used raw decoder reset to the stream's size); expected bytes come from a direct interpreter of the program, so any wrong state transition / context / wrap offset / distance or length decoding shows as a byte difference; each stream is decoded again with another declared dictionary size and through a fragmenting reader into a short-writing sink; fixed batches add 1-20 MiB (thorough: 64 MiB) histories and streams of more than 65536 symbols; thorough adds a structure-aware libFuzzer target. Universally quantified over an unbounded domain: exploration is the honest level."),
 "C02": ("exploration", "5/C02", "generated LZMA2 chunk sequences + interpreter oracle (proptest), liblzma second opinion",
         "Generated chunk sequences with every reset class, property changes, cross-chunk copies, mid-stream dictionary resets, size extremes (1 byte, exactly k x 64 KiB, 2 MiB, 64 KiB packed) and hundreds of chunks, decoded through lzma2_decompress (also via a fragmenting reader into a short-writing sink), raw::Lzma2Decoder and xz_decompress and compared with the interpreter; liblzma is consulted on every case."),
 "C03": ("exploration", "5/C03", "grammar-generated .xz files + strict-parser/liblzma-validated expected output (proptest)",
         "Generated well-formed .xz files over block counts, check types, optional size fields, header padding, payload shapes; each file is first accepted by liblzma and the harness' strict parser, then lzma-rs must decode it exactly."),
 "C04": ("exploration", "5/C04", "round-trip + differential against independent decoders (proptest)",
         "Generated inputs (length/content classes incl. carry-propagation and 64 KiB boundaries) x encoder options x reader fragmentation (and, up to 70 000 bytes, a sink accepting only part of each write, which must receive the same bytes); a fixed case compresses more than 4 GiB (index/footer arithmetic); a 13-byte .lzma header must be one xz's auto-detection recognises; encoder output must decode with lzma-rs, with the independent reference decoders (strict end rules) and with liblzma."),
 "C05": ("exploration", "5/C05", "differential: Stream under generated chunkings vs one-shot decoder (proptest + libFuzzer)",
         "Differential check over generated inputs (valid, mutated, continued, random) x options x compositions into write calls with cuts targeted inside header, preamble and symbols (incl. a constructed ~18-byte symbol cut at every offset)."),
 "C06": ("fault_enumeration", "5/C06", "per-file exhaustive fault enumeration (bit flips, truncations, sealed field mutations) over generated files",
         "Per generated file every single-bit flip, every truncation offset and the complete (field x value-class) table of sealed single-field mutations (incl. bytes after the footer) is enumerated; files themselves are sampled. Judged on both arithmetic profiles."),
 "C07": ("exploration", "5/C07", "structured-mutation fuzzing (proptest + libFuzzer) with panic/alloc/termination oracles",
         "Search for panics, over-allocation and non-return over structured mutants, near-valid grammar files (one sealed field at an extreme) and random bytes at every decoding entry point, on overflow-checked and release builds; a request the system allocator refuses (>= 64 GiB) is reported instead of aborting; heap is measured with a counting allocator against 16 MiB + 64 KiB/input byte + 8 x sink bytes, and against 16 MiB + 4 x (true output) when the input is an unmutated valid stream (outputs beyond 1 MiB with announced dictionaries up to 4 GiB - 1); memory and termination are budgets, not decided."),
 "C08": ("exploration", "5/C08", "generated option/size/marker matrix + reference decoder oracle (proptest)",
         "Per generated program the full matrix of options x header size field x provided size x marker x trailing bytes x truncations is evaluated against the reference decoder's end rules."),
 "C09": ("exploration", "5/C09", "generated invalid symbol programs (one out-of-window copy) + must-reject / prefix oracle (proptest)",
         "Valid program prefix + one copy op with an out-of-window distance at every position class relative to the wrap point, through both window implementations, plus references through rep0 right after an end marker (raw decoder continued without reset, bytes written to a Stream after the marker); must be rejected and delivered bytes must be a prefix of the valid prefix's output."),
 "C10": ("exploration", "5/C10", "generated limits around the needed window + differential vs unlimited run + counting allocator (proptest)",
         "Limits at need-1/need/need+1/dict+-1/extremes for generated streams, one-shot and streaming; verdict must flip exactly at need; heap growth bounded via a counting allocator."),
 "C11": ("exploration", "5/C11", "generated payload + trailing bytes, reader position oracle from the encoder's normalisation count (proptest)",
         "Payload followed by arbitrary bytes through slice/Cursor/BufReader/custom BufRead; reader position after success must equal the payload length computed by the reference encoder; whole-file decoders must reject trailing bytes."),
 "C12": ("fault_enumeration", "5/C12", "per-input exhaustive I/O fault enumeration (every write/read call) over generated inputs",
         "Per generated input every write-call and read-call fault position is enumerated (the injected io::Error built in six different ways) for all encoders/decoders and Stream, plus short-write and failing-flush sinks; inputs are sampled."),
 "C13": ("exploration", "5/C13", "differential: fragmented readers vs all-at-once reader (proptest + libFuzzer)",
         "Same input through BufReader(cap) and a custom BufRead with generated refill boundaries (targeted at format field boundaries) must give the same verdict, output and consumed count as the slice reader."),
 "C14": ("exploration", "5/C14", "model-based operation histories on one decoder object vs fresh decoder (proptest)",
         "Generated histories of decompress(valid|corrupt|truncated)/reset operations; each decompress after a reset is compared with a freshly constructed decoder."),
 "C15": ("exploration", "5/C15", "prefix enumeration per generated stream + per-symbol progress table oracle (proptest)",
         "For generated streams every prefix length (small streams) under several chunkings with allow_incomplete; output must be a prefix of the full output and at least what the encoder's table says is determined by input minus 64 bytes."),
 "C16": ("exploration", "5/C16", "model-based call histories on Stream (write/flush/get_output/finish) with latch invariants (proptest + libFuzzer)",
         "Generated call sequences over valid, corrupt and over-long inputs; after the first failed write or after completion the sink must stay frozen and verdicts latched."),
 "C17": ("exploration", "5/C17", "generated chunk sequences x framing-field mutation table + reference LZMA2 decoder (proptest)",
         "Valid chunk sequences with each framing field set to boundary-violating values at every chunk position; must be rejected by lzma2_decompress and xz_decompress."),
 "C18": ("exploration", "5/C18", "generated files re-sealed with each unsupported feature (proptest)",
         "Valid files re-encoded with all 16 check ids (SHA-256 with the real digest), foreign filter ids, reserved bits (on both sides and on one side only), concatenated streams and stream padding; must be rejected."),
}

checks = []
for i in ids:
    if i not in implemented or i not in T:
        continue
    cat, ref, tech, text = T[i]
    checks.append({
        "property_id": i,
        "quick_cmd": f"./check {i} quick",
        "thorough_cmd": f"./check {i} thorough",
        "evidence_file": f"/verif/evidence/{i}.json",
        "replay_cmd_template": "./check replay {path}",
        "engine": "verif-harness",
        "level_claimed": {"category": cat, "text": text, "design_ref": f"DESIGN.md section {ref}"},
        "level_note": TRUST,
        "technique": tech,
    })

m = {
    "version": 1,
    "setup_cmd": "./check setup",
    "hooks": {
        "guard": "lzma_rs_verif",
        "enable": "no source hooks are needed or present: the harness builds /repo as a cargo path dependency with the public features stream,raw_decoder; the guard name is reserved and unused",
        "baseline_off_cmd": "cd /repo && cargo test --workspace --no-fail-fast --offline",
        "source_commits": [],
        "add_only": True,
    },
    "engines": [
        {"name": "verif-harness", "path": "/verif/harness", "serves_properties": [c["property_id"] for c in checks],
         "kind_free_text": "Rust crate: independent LZMA/LZMA2/XZ reference model + proptest generators + per-property oracles; built in two arithmetic profiles (checked = overflow-checks + debug-assertions, release = wrapping)"},
        {"name": "verif-fuzz", "path": "/verif/fuzz", "serves_properties": ["C01", "C02", "C03", "C05", "C06", "C07", "C13", "C16"],
         "kind_free_text": "cargo-fuzz (libFuzzer) targets carrying the same oracle functions; used by the thorough tier"},
    ],
    "checks": checks,
    "not_applicable": [{"property_id": i, "reason": "check under construction in this round (design in DESIGN.md section 5); not claimed yet"} for i in ids if i not in implemented],
    "notes": "Exit codes: 0 held on everything explored; 1 + 'VIOLATION property=<id> replay=<path>'; 2 harness problem (never a VIOLATION line). Fixed defects are recorded in KNOWN_FINDINGS.txt.",
}
if not m["not_applicable"]:
    del m["not_applicable"]
json.dump(m, open(os.path.join(ROOT, "MANIFEST.json"), "w"), indent=1)
print("checks:", [c["property_id"] for c in checks])
