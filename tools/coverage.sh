#!/bin/bash
# tools/coverage.sh [cases]  — region/line coverage of /repo/src achieved by the quick checks.
# Builds the harness with -C instrument-coverage (nightly, llvm-tools) in a scratch target dir, runs every
# quick check with 4 workers, merges the profiles and prints llvm-cov's per-file report. Slow (instrumented
# code, ~1-2 h); informational only, not part of any registered check.
set -u
T=/tmp/covtarget; C=/tmp/cov; V=/tmp/covverif
P=$(dirname $(find ~/.rustup/toolchains/nightly-x86_64-unknown-linux-gnu -name llvm-profdata | head -1))
export CARGO_NET_OFFLINE=true
( cd /verif/harness && RUSTFLAGS="-C instrument-coverage" cargo +nightly build --offline --release --target-dir $T ) || exit 2
rm -rf $C $V; mkdir -p $C $V/evidence $V/replays; cp /verif/KNOWN_FINDINGS.txt $V/
for i in 01 02 03 04 05 06 07 08 09 10 11 12 13 14 15 16 17 18; do
  VERIF_CASE_TIMEOUT=3600 VERIF_WORKERS=4 VERIF_DIR=$V ${1:+VERIF_CASES=$1} LLVM_PROFILE_FILE="$C/c$i-%p.profraw" $T/release/verif check C$i quick | tail -1
done
$P/llvm-profdata merge -sparse $C/*.profraw -o $C/all.profdata
$P/llvm-cov report $T/release/verif -instr-profile=$C/all.profdata --ignore-filename-regex='(registry|rustc|harness|rustup)'
rm -rf $T $V
