#!/bin/bash
# tools/confirm_seeds.sh <seeds-root> <out-log>: for every <seeds-root>/<ID>/<n>/patch.diff confirm in a scratch worktree that
#  (1) it applies and builds with features stream,raw_decoder, (2) the 59 default tests still pass,
#  (3) demo.rs fails with the change, (4) demo.rs passes without it.
ROOT="$1"; LOG="$2"
WT=/tmp/wtv
export CARGO_NET_OFFLINE=true
git -C /repo worktree remove --force $WT 2>/dev/null
git -C /repo worktree add --detach $WT HEAD >/dev/null 2>&1 || exit 2
: > "$LOG"
for d in "$ROOT"/[CG]*/[0-9]*; do
  [ -f "$d/patch.diff" ] || continue
  id=$(basename $(dirname $d))/$(basename $d)
  cd $WT && git checkout -q -- . && rm -f tests/demo.rs
  if ! git apply "$d/patch.diff" 2>/dev/null; then echo "$id apply=FAIL" >> "$LOG"; continue; fi
  suite=$(cargo test --offline 2>&1 | grep -E "^test result" | awk '{p+=$4; f+=$6} END {print p"/"f}')
  cp "$d/demo.rs" tests/demo.rs
  cargo test --offline --features stream,raw_decoder --test demo >/tmp/wtv_demo1.log 2>&1; with=$?
  git checkout -q -- . 
  cargo test --offline --features stream,raw_decoder --test demo >/tmp/wtv_demo2.log 2>&1; without=$?
  rm -f tests/demo.rs
  echo "$id suite_pass/fail=$suite demo_with_change_exit=$with demo_without_exit=$without" >> "$LOG"
done
cd / && git -C /repo worktree remove --force $WT
echo DONE >> "$LOG"
