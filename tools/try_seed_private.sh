#!/bin/bash
# tools/try_seed_private.sh <abs patch.diff> <ID> <lane> [tier] — like try_seed.sh, but on a private worktree of /repo HEAD and a
# private copy of the harness (under /tmp/lane-<lane>), so that several seeded changes can be tried in parallel without touching
# /repo or /verif. Evidence and replays of these runs go to the private directory and are discarded. Prints the check's output.
P="$1"; ID="$2"; LANE="$3"; TIER="${4:-quick}"
L=/tmp/lane-$LANE; WT=$L/repo; HM=$L/harness; VD=$L/verif
export CARGO_NET_OFFLINE=true
git -C /repo worktree remove --force $WT 2>/dev/null; rm -rf $L; mkdir -p $L
git -C /repo worktree add --detach $WT HEAD >/dev/null 2>&1 || exit 2
trap 'git -C /repo worktree remove --force '$WT' 2>/dev/null; rm -rf '$L EXIT
mkdir -p $HM $VD/evidence $VD/replays
rsync -a --exclude target /verif/harness/ $HM/
# NO_REGRESS=1: leave out the saved minimal cases, so that only the generated search can report
[ -n "${NO_REGRESS:-}" ] || rsync -a /verif/replays/ $VD/replays/
sed -i "s#path = \"/repo\"#path = \"$WT\"#" $HM/Cargo.toml
cp /verif/KNOWN_FINDINGS.txt $VD/
( cd $WT && git apply "$P" ) || { echo "patch does not apply"; exit 2; }
( cd $HM && cargo build --offline --quiet --profile checked 2>&1 | tail -3 && cargo build --offline --quiet --release 2>&1 | tail -3 )
VERIF_DIR=$VD timeout 900 $HM/target/checked/verif check $ID $TIER 2>&1 | grep -E "VIOLATION|KNOWN-FINDING|^\[|cases" | head -8; r=${PIPESTATUS[0]}
if [ $r -ne 1 ] && { [ $ID = C06 ] || [ $ID = C07 ]; }; then
  VERIF_DIR=$VD timeout 900 $HM/target/release/verif check $ID $TIER 2>&1 | grep -E "VIOLATION" | head -3; r2=${PIPESTATUS[0]}
  [ $r2 -eq 1 ] && r=1
fi
# KEEP_REPLAYS=<dir>: keep the (shrunk) failing cases this run wrote
[ -n "${KEEP_REPLAYS:-}" ] && mkdir -p "$KEEP_REPLAYS" && cp $VD/replays/$ID-*.json "$KEEP_REPLAYS"/ 2>/dev/null
echo "exit=$r"
exit $r
