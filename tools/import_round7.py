#!/usr/bin/env python3
# tools/import_round7.py <seeds-root> <confirm-log> <try-log-dir>: copy the confirmed changes of round 7 into /verif/seeded/r7-<ID>-<n>/
# (patch.diff, demo.rs, meta.json). <try-log-dir>/<ID>-<n>.log holds the output of tools/try_seed.sh at the first attempt.
import json, os, re, shutil, sys

root, conf, trydir = sys.argv[1:4]
confirmed = {}
for line in open(conf):
    m = re.match(r"(\S+)/(\d+) suite_pass/fail=(\S+) demo_with_change_exit=(\d+) demo_without_exit=(\d+)", line)
    if m:
        confirmed[(m.group(1), m.group(2))] = (m.group(3), int(m.group(4)), int(m.group(5)))
for (pid, n), (suite, w, wo) in sorted(confirmed.items()):
    src = os.path.join(root, pid, n)
    ok = suite == "59/0" and w != 0 and wo == 0
    if not ok:
        print("NOT CONFIRMED", pid, n, suite, w, wo)
        continue
    dst = f"/verif/seeded/r7-{pid}-{n}"
    os.makedirs(dst, exist_ok=True)
    shutil.copy(os.path.join(src, "patch.diff"), dst)
    shutil.copy(os.path.join(src, "demo.rs"), dst)
    files = sorted(set(re.findall(r"^\+\+\+ b/(\S+)", open(os.path.join(src, "patch.diff")).read(), re.M)))
    tl = os.path.join(trydir, f"{pid}-{n}.log")
    first = open(tl).read() if os.path.exists(tl) else ""
    viol = [l for l in first.splitlines() if l.startswith("VIOLATION")]
    meta = {
        "id": f"r7-{pid}-{n}",
        "round": 7,
        "breaks_property": pid,
        "files": files,
        "origin": "independent sub-agent (round 7) given only the text of this property and its own scratch worktree; asked for "
                  "two changes that need something specific to manifest (multi-step sequence, unusual input, boundary value, cooperating sites)",
        "agent_notes": open(os.path.join(src, "meta.txt")).read().strip() if os.path.exists(os.path.join(src, "meta.txt")) else "",
        "confirmed_by_me": {
            "how": "tools/confirm_seeds.sh in a scratch worktree of /repo HEAD 65614fe",
            "existing_suite_pass/fail_with_change": suite,
            "demo_exit_with_change": w,
            "demo_exit_without_change": wo,
        },
        "detected_by_named_property_quick_check_at_first_attempt": bool(viol),
        "first_attempt_output": (viol[0] if viol else (first.strip().splitlines() or ["(not run)"])[-1]),
    }
    old = os.path.join(dst, "meta.json")
    if os.path.exists(old):
        prev = json.load(open(old))
        for k in ("detected_by_named_property_quick_check_now", "strengthening", "regression_replay"):
            if k in prev:
                meta[k] = prev[k]
    json.dump(meta, open(old, "w"), indent=1)
    print("imported", dst, "first-attempt:", "reported" if viol else "SILENT")
