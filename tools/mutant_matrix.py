#!/usr/bin/env python3
"""tools/mutant_matrix.py <mutants-dir> <out.jsonl> [max-mutants]

Run the quick checks against operator-level mutants produced by tools/mutate.py.
Uses a private copy of the harness whose lzma-rs dependency points at a scratch
worktree (/tmp/wtmm), so neither /repo nor /verif is disturbed. For each mutant
the checks of the properties anchored in the mutated file run first; the search
stops at the first check that reports a violation. Mutants nobody reports are
listed for manual triage (equivalent mutant / not covered by any property /
gap in a check)."""
import json, os, random, subprocess, sys, time, glob, shutil

ROOT, OUT = sys.argv[1], sys.argv[2]
MAXM = int(sys.argv[3]) if len(sys.argv) > 3 else 100
WT, HM, VD = "/tmp/wtmm", "/tmp/hmm", "/tmp/hmm_verif"
ENV = dict(os.environ, CARGO_NET_OFFLINE="true", VERIF_DIR=VD, VERIF_CASE_TIMEOUT="60")
IDS = [f"C{i:02d}" for i in range(1, 19)]
props = {json.loads(l)["id"]: json.loads(l) for l in open("/verif/properties.jsonl")}
by_file = {}
for pid, p in props.items():
    for f in p["anchors"]["files"]:
        by_file.setdefault(f, []).append(pid)

def sh(*a, **k):
    return subprocess.run(*a, capture_output=True, text=True, **k)

sh(["git", "-C", "/repo", "worktree", "remove", "--force", WT])
shutil.rmtree(HM, ignore_errors=True); shutil.rmtree(VD, ignore_errors=True)
assert sh(["git", "-C", "/repo", "worktree", "add", "--detach", WT, "HEAD"]).returncode == 0
os.makedirs(VD + "/evidence"); os.makedirs(VD + "/replays")
sh(["rsync", "-a", "--exclude", "target", "/verif/harness/", HM + "/"])
t = open(HM + "/Cargo.toml").read().replace('path = "/repo"', f'path = "{WT}"')
open(HM + "/Cargo.toml", "w").write(t)
shutil.copy("/verif/KNOWN_FINDINGS.txt", VD)

muts = sorted(glob.glob(ROOT + "/[0-9]*/patch.diff"))
# stratify: at most k per (file) so that big files do not dominate
random.Random(7).shuffle(muts)
per_file, chosen = {}, []
for m in muts:
    info = json.load(open(os.path.dirname(m) + "/info.json"))
    if per_file.get(info["file"], 0) >= max(4, MAXM // 8):
        continue
    per_file[info["file"]] = per_file.get(info["file"], 0) + 1
    chosen.append((m, info))
    if len(chosen) >= MAXM:
        break
print(f"{len(muts)} survivors, evaluating {len(chosen)}", flush=True)

def run_check(pid, profile):
    try:
        r = subprocess.run([f"{HM}/target/{profile}/verif", "check", pid, "quick"], env=ENV, capture_output=True, text=True, timeout=900)
        sig = ""
        for l in r.stdout.split("\n"):
            if l.strip().startswith("sig="):
                sig = l.strip()[:160]
                break
        return r.returncode, sig
    except subprocess.TimeoutExpired:
        return 124, "timeout"

with open(OUT, "a") as out:
    for m, info in chosen:
        t0 = time.time()
        sh(["git", "-C", WT, "checkout", "-q", "--", "."])
        if sh(["git", "-C", WT, "apply", m]).returncode != 0:
            continue
        b = sh(["cargo", "build", "--offline", "--quiet", "--profile", "checked"], cwd=HM, env=ENV)
        if b.returncode != 0:
            json.dump({"mutant": m, **info, "result": "harness-build-fail"}, out); out.write("\n"); out.flush()
            continue
        rel = by_file.get(info["file"], [])
        order = rel + [i for i in IDS if i not in rel]
        caught, log = None, []
        for pid in order:
            rc, sig = run_check(pid, "checked")
            log.append((pid, rc))
            if rc == 1:
                caught = (pid, sig)
                break
        if caught is None:
            # wrapping-arithmetic build for the two properties that are judged on both
            sh(["cargo", "build", "--offline", "--quiet", "--release"], cwd=HM, env=ENV)
            for pid in ("C06", "C07"):
                rc, sig = run_check(pid, "release")
                log.append((pid + "/release", rc))
                if rc == 1:
                    caught = (pid, sig)
                    break
        rec = {"mutant": os.path.basename(os.path.dirname(m)), "file": info["file"], "line": info["line"], "kind": info["kind"], "desc": info["desc"],
               "old": info["old"].strip(), "new": info["new"].strip(), "anchored_in": rel,
               "caught_by": caught[0] if caught else None, "sig": caught[1] if caught else None,
               "checks_run": log, "seconds": round(time.time() - t0)}
        json.dump(rec, out); out.write("\n"); out.flush()
        print(rec["mutant"], rec["file"], rec["line"], rec["kind"], "->", rec["caught_by"], rec["seconds"], "s", flush=True)

sh(["git", "-C", WT, "checkout", "-q", "--", "."])
sh(["git", "-C", "/repo", "worktree", "remove", "--force", WT])
shutil.rmtree(HM, ignore_errors=True); shutil.rmtree(VD, ignore_errors=True)
print("DONE")
