#!/bin/bash
# tools/seed_matrix.sh <seeds-root> <out.tsv>
# Which quick checks catch which seeded change? Runs on a private copy of the harness whose
# lzma-rs path dependency points at a scratch worktree, so /repo and /verif are not disturbed.
ROOT="$1"; OUT="$2"
WT=/tmp/wtm; HM=/tmp/hm; VD=/tmp/hm_verif
export CARGO_NET_OFFLINE=true
git -C /repo worktree remove --force $WT 2>/dev/null; rm -rf $HM $VD
git -C /repo worktree add --detach $WT HEAD >/dev/null 2>&1 || exit 2
mkdir -p $HM $VD/evidence $VD/replays
rsync -a --exclude target /verif/harness/ $HM/
sed -i "s#path = \"/repo\"#path = \"$WT\"#" $HM/Cargo.toml
cp /verif/KNOWN_FINDINGS.txt $VD/
IDS="C01 C02 C03 C04 C05 C06 C07 C08 C09 C10 C11 C12 C13 C14 C15 C16 C17 C18"
: > "$OUT"
for d in "$ROOT"/*/; do
  for pd in "$d"patch.diff "$d"[0-9]*/patch.diff; do
    [ -f "$pd" ] || continue
    name=$(echo "$pd" | sed "s#^$ROOT/##; s#/patch.diff##")
    ( cd $WT && git checkout -q -- . && git apply "$pd" ) || { echo -e "$name\tAPPLY-FAIL" >> "$OUT"; continue; }
    ( cd $HM && cargo build --offline --quiet --profile checked 2>/dev/null && cargo build --offline --quiet --release 2>/dev/null ) || { echo -e "$name\tBUILD-FAIL" >> "$OUT"; continue; }
    line="$name"
    for id in $IDS; do
      VERIF_DIR=$VD timeout 600 $HM/target/checked/verif check $id quick >/dev/null 2>&1; r=$?
      if [ $r -ne 1 ] && { [ $id = C06 ] || [ $id = C07 ]; }; then
        VERIF_DIR=$VD timeout 600 $HM/target/release/verif check $id quick >/dev/null 2>&1; r2=$?
        [ $r2 -eq 1 ] && r=1
      fi
      line="$line\t$id=$r"
    done
    echo -e "$line" >> "$OUT"
  done
done
( cd $WT && git checkout -q -- . )
git -C /repo worktree remove --force $WT; rm -rf $HM $VD
echo DONE >> "$OUT"
