//! Seed corpora for the libFuzzer targets, produced by the harness' own
//! generators (deterministic) plus the repository's test files.

use crate::fuzzbridge::*;
use crate::props::{c05, c07, c13};
use crate::runner::{Property, Tier};
use proptest::strategy::{Strategy, ValueTree};
use proptest::test_runner::{Config, RngSeed, TestRunner};
use std::path::Path;

fn put(dir: &Path, i: usize, bytes: &[u8]) {
    if bytes.len() <= 8192 {
        let _ = std::fs::write(dir.join(format!("seed-{:04}", i)), bytes);
    }
}

pub fn write_all(root: &Path) -> i32 {
    let mut runner = TestRunner::new(Config {
        rng_seed: RngSeed::Fixed(0x5EED),
        failure_persistence: None,
        ..Config::default()
    });
    let repo_files: Vec<Vec<u8>> = std::fs::read_dir("/repo/tests/files")
        .map(|rd| {
            rd.filter_map(|e| e.ok())
                .filter_map(|e| std::fs::read(e.path()).ok())
                .filter(|b| b.len() <= 4096)
                .collect()
        })
        .unwrap_or_default();
    for t in TARGETS {
        let d = root.join(t);
        let _ = std::fs::create_dir_all(&d);
        let mut n = 0;
        match t {
            "fz_stream_diff" => {
                let s = c05::C05.strategy(Tier::Quick);
                for _ in 0..300 {
                    let c = c05::C05.concretize(&s.new_tree(&mut runner).unwrap().current());
                    put(&d, n, &c05_bytes(&c));
                    n += 1;
                }
                for f in &repo_files {
                    let mut v = vec![0, 0, 0, 3, 1, 7, 19];
                    v.extend_from_slice(f);
                    put(&d, n, &v);
                    n += 1;
                }
            }
            "fz_total" => {
                let s = c07::C07.strategy(Tier::Quick);
                for _ in 0..400 {
                    let c = c07::C07.concretize(&s.new_tree(&mut runner).unwrap().current());
                    put(&d, n, &c07_bytes(&c));
                    n += 1;
                }
                for f in &repo_files {
                    for sel in [0u8, 1, 2, 4] {
                        let mut v = vec![sel, 0, 0, 0, 0];
                        v.extend_from_slice(f);
                        put(&d, n, &v);
                        n += 1;
                    }
                }
            }
            "fz_reader_diff" => {
                let s = c13::C13.strategy(Tier::Quick);
                for _ in 0..300 {
                    let c = c13::C13.concretize(&s.new_tree(&mut runner).unwrap().current());
                    put(&d, n, &c13_bytes(&c));
                    n += 1;
                }
                for f in &repo_files {
                    for sel in [0u8, 2, 5] {
                        let mut v = vec![sel, 3, 7, 1, 2, 3];
                        v.extend_from_slice(f);
                        put(&d, n, &v);
                        n += 1;
                    }
                }
            }
            "fz_stream_calls" => {
                let s = c05::C05.strategy(Tier::Quick);
                for i in 0..300 {
                    let c = c05::C05.concretize(&s.new_tree(&mut runner).unwrap().current());
                    put(&d, n, &c16_bytes(&c.input, (i % 5) as u8));
                    n += 1;
                }
            }
            "fz_program" | "fz_chunks" | "fz_xz_valid" => {
                // structured byte formats: pseudo-random seeds of several lengths
                let mut x = 0x1234_5678_9ABC_DEFFu64 ^ (t.len() as u64);
                for i in 0..200usize {
                    let len = 8 + (i * 7) % 400;
                    let v: Vec<u8> = (0..len)
                        .map(|_| {
                            x ^= x << 13;
                            x ^= x >> 7;
                            x ^= x << 17;
                            (x >> 32) as u8
                        })
                        .collect();
                    put(&d, n, &v);
                    n += 1;
                }
            }
            _ => {
                // fz_xz_sealed: structured bytes; a few hand-made shapes
                for i in 0..64u8 {
                    let mut v = vec![i, i % 3];
                    for b in 0..(i % 3) {
                        v.push(i.wrapping_mul(7).wrapping_add(b));
                        v.push(3 + i % 20);
                        v.extend((0..(3 + i % 20)).map(|k| k.wrapping_mul(i)));
                    }
                    v.push(i.wrapping_mul(31));
                    v.push(i.wrapping_mul(17));
                    put(&d, n, &v);
                    n += 1;
                }
            }
        }
        println!("corpus {}: {} files", t, n);
    }
    0
}
