//! Verification harness for gendx/lzma-rs: reference model, generators, I/O
//! fault wrappers and one oracle per property (C01..C18).
pub mod alloc;
#[cfg(feature = "liblzma")]
pub mod ffi_liblzma;
pub mod gen;
pub mod iowrap;
pub mod props;
pub mod refmodel;
pub mod runner;
pub mod sut;

#[global_allocator]
static GLOBAL: alloc::Counting = alloc::Counting;
pub mod selftest;
pub mod fuzzbridge;
pub mod corpus;
