pub fn x(){}
