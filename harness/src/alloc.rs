//! Counting global allocator with per-thread live / peak counters.

use std::alloc::{GlobalAlloc, Layout, System};
use std::cell::Cell;

pub struct Counting;

thread_local! {
    static LIVE: Cell<isize> = const { Cell::new(0) };
    static PEAK: Cell<isize> = const { Cell::new(0) };
    /// largest single allocation request since the last `measure` start
    static BIGGEST: Cell<usize> = const { Cell::new(0) };
}

#[inline]
fn add(n: isize) {
    let _ = LIVE.try_with(|l| {
        let v = l.get() + n;
        l.set(v);
        if n > 0 {
            let _ = PEAK.try_with(|p| {
                if v > p.get() {
                    p.set(v)
                }
            });
            let _ = BIGGEST.try_with(|b| {
                if n as usize > b.get() {
                    b.set(n as usize)
                }
            });
        }
    });
}

type FailHook = Box<dyn Fn(usize) + Send + Sync>;
static FAIL_HOOK: std::sync::Mutex<Option<FailHook>> = std::sync::Mutex::new(None);
thread_local! {
    static IN_FAIL: Cell<bool> = const { Cell::new(false) };
}

/// Called (on the requesting thread) when the system allocator refuses a
/// request. std would abort the process right after; the hook gets the chance
/// to save the case being judged and to exit with a meaningful code first.
pub fn set_fail_hook(h: Option<FailHook>) {
    if let Ok(mut g) = FAIL_HOOK.lock() {
        *g = h;
    }
}

#[cold]
fn alloc_failed(size: usize) {
    let nested = IN_FAIL.try_with(|c| c.replace(true)).unwrap_or(true);
    if nested {
        return;
    }
    if let Ok(g) = FAIL_HOOK.lock() {
        if let Some(h) = g.as_ref() {
            h(size);
        }
    }
    let _ = IN_FAIL.try_with(|c| c.set(false));
}

unsafe impl GlobalAlloc for Counting {
    unsafe fn alloc(&self, layout: Layout) -> *mut u8 {
        let p = System.alloc(layout);
        if !p.is_null() {
            add(layout.size() as isize);
        } else {
            alloc_failed(layout.size());
        }
        p
    }
    unsafe fn alloc_zeroed(&self, layout: Layout) -> *mut u8 {
        let p = System.alloc_zeroed(layout);
        if !p.is_null() {
            add(layout.size() as isize);
        } else {
            alloc_failed(layout.size());
        }
        p
    }
    unsafe fn dealloc(&self, ptr: *mut u8, layout: Layout) {
        System.dealloc(ptr, layout);
        add(-(layout.size() as isize));
    }
    unsafe fn realloc(&self, ptr: *mut u8, layout: Layout, new_size: usize) -> *mut u8 {
        let p = System.realloc(ptr, layout, new_size);
        if !p.is_null() {
            // a growing realloc may transiently hold old + new
            if new_size > layout.size() {
                add(new_size as isize);
                add(-(layout.size() as isize));
            } else {
                add(new_size as isize - layout.size() as isize);
            }
        } else {
            alloc_failed(new_size);
        }
        p
    }
}

#[derive(Clone, Copy, Debug, Default)]
pub struct Mem {
    /// peak growth of this thread's live heap during the call
    pub peak_growth: usize,
    /// largest single allocation request during the call
    pub biggest: usize,
}

/// Run `f` and report the peak growth of live heap bytes on this thread.
pub fn measure<R>(f: impl FnOnce() -> R) -> (R, Mem) {
    let base = LIVE.with(|l| l.get());
    PEAK.with(|p| p.set(base));
    BIGGEST.with(|b| b.set(0));
    let r = f();
    let peak = PEAK.with(|p| p.get());
    let biggest = BIGGEST.with(|b| b.get());
    (
        r,
        Mem {
            peak_growth: (peak - base).max(0) as usize,
            biggest,
        },
    )
}
