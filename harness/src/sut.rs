//! Adapters around the system under test (lzma-rs, path dependency /repo).
//! Every call is wrapped in catch_unwind: a panic is a third outcome.

use crate::iowrap::{ChunkyReader, SharedSink, ShortRead, SinkCfg, SinkState};
use crate::refmodel::model::Props;
use lzma_rs::decompress::raw::{Lzma2Decoder, LzmaDecoder, LzmaParams, LzmaProperties};
use lzma_rs::decompress::{Options, Stream, UnpackedSize};
use serde::{Deserialize, Serialize};
use std::cell::RefCell;
use std::io::{BufRead, BufReader, Cursor, Write};
use std::panic::{catch_unwind, AssertUnwindSafe};

#[derive(Clone, Debug, PartialEq, Eq)]
pub enum Verdict {
    Ok,
    Err(String),
    Panic(String),
}

impl Verdict {
    pub fn is_ok(&self) -> bool {
        matches!(self, Verdict::Ok)
    }
    pub fn is_err(&self) -> bool {
        matches!(self, Verdict::Err(_))
    }
    pub fn is_panic(&self) -> bool {
        matches!(self, Verdict::Panic(_))
    }
    pub fn kind(&self) -> &'static str {
        match self {
            Verdict::Ok => "Ok",
            Verdict::Err(_) => "Err",
            Verdict::Panic(_) => "Panic",
        }
    }
    pub fn brief(&self) -> String {
        match self {
            Verdict::Ok => "Ok".into(),
            Verdict::Err(e) => format!("Err({})", trunc(e, 160)),
            Verdict::Panic(e) => format!("PANIC({})", trunc(e, 200)),
        }
    }
}

pub fn trunc(s: &str, n: usize) -> String {
    if s.len() <= n {
        s.to_string()
    } else {
        let mut e = n;
        while !s.is_char_boundary(e) {
            e -= 1;
        }
        format!("{}…", &s[..e])
    }
}

thread_local! {
    static LAST_PANIC: RefCell<Option<String>> = const { RefCell::new(None) };
    static QUIET: std::cell::Cell<bool> = const { std::cell::Cell::new(false) };
}

/// Install a panic hook that records message + location per thread and stays
/// silent while a guarded call is running.
pub fn install_panic_hook() {
    use std::sync::Once;
    static ONCE: Once = Once::new();
    ONCE.call_once(|| {
        let default = std::panic::take_hook();
        std::panic::set_hook(Box::new(move |info| {
            let msg = if let Some(s) = info.payload().downcast_ref::<&str>() {
                s.to_string()
            } else if let Some(s) = info.payload().downcast_ref::<String>() {
                s.clone()
            } else {
                "<non-string panic>".to_string()
            };
            let loc = info
                .location()
                .map(|l| format!("{}:{}", l.file(), l.line()))
                .unwrap_or_default();
            let quiet = QUIET.try_with(|q| q.get()).unwrap_or(false);
            let _ = LAST_PANIC.try_with(|p| *p.borrow_mut() = Some(format!("{} @ {}", msg, loc)));
            if !quiet {
                default(info);
            }
        }));
    });
}

/// Run `f`; Err(description) if it panicked.
pub fn guarded<R>(f: impl FnOnce() -> R) -> Result<R, String> {
    install_panic_hook();
    let was = QUIET.with(|q| q.replace(true));
    let r = catch_unwind(AssertUnwindSafe(f));
    QUIET.with(|q| q.set(was));
    match r {
        Ok(v) => Ok(v),
        Err(_) => Err(LAST_PANIC
            .with(|p| p.borrow_mut().take())
            .unwrap_or_else(|| "<panic>".into())),
    }
}

/// Signature of a panic: its source location (file:line), stable across inputs.
pub fn panic_site(desc: &str) -> String {
    match desc.rfind(" @ ") {
        Some(i) => {
            let loc = &desc[i + 3..];
            // strip the absolute prefix so the signature does not depend on paths
            match loc.find("src/") {
                Some(j) => loc[j..].to_string(),
                None => loc.to_string(),
            }
        }
        None => "unknown".into(),
    }
}

// ---------------------------------------------------------------------------

#[derive(Clone, Copy, Debug, PartialEq, Eq, Hash, Serialize, Deserialize)]
pub enum USize {
    ReadFromHeader,
    ReadHeaderButUseProvided(Option<u64>),
    UseProvided(Option<u64>),
}

#[derive(Clone, Copy, Debug, PartialEq, Eq, Hash, Serialize, Deserialize)]
pub struct Opts {
    pub usize_: USize,
    pub memlimit: Option<u64>,
    pub allow_incomplete: bool,
}

impl Opts {
    pub fn default() -> Opts {
        Opts {
            usize_: USize::ReadFromHeader,
            memlimit: None,
            allow_incomplete: false,
        }
    }
    pub fn with(u: USize) -> Opts {
        Opts {
            usize_: u,
            memlimit: None,
            allow_incomplete: false,
        }
    }
    pub fn to_lzma(&self) -> Options {
        Options {
            unpacked_size: match self.usize_ {
                USize::ReadFromHeader => UnpackedSize::ReadFromHeader,
                USize::ReadHeaderButUseProvided(x) => UnpackedSize::ReadHeaderButUseProvided(x),
                USize::UseProvided(x) => UnpackedSize::UseProvided(x),
            },
            memlimit: self.memlimit.map(|m| m as usize),
            allow_incomplete: self.allow_incomplete,
        }
    }
    pub fn header_len(&self) -> usize {
        match self.usize_ {
            USize::UseProvided(_) => 5,
            _ => 13,
        }
    }
}

/// How the input bytes are presented to a one-shot decoder.
#[derive(Clone, Debug, PartialEq, Eq, Hash, Serialize, Deserialize)]
pub enum ReaderKind {
    Slice,
    Cursor,
    /// std BufReader with this capacity over a short-reading source
    BufReader { cap: usize, reads: Vec<usize> },
    /// custom BufRead with generated refill sizes and explicit stop offsets
    Chunky { pattern: Vec<usize>, stops: Vec<usize> },
}

#[derive(Clone, Debug)]
pub struct Run {
    pub verdict: Verdict,
    pub out: Vec<u8>,
    /// logical position of the reader after the call
    pub consumed: usize,
    pub sink: SinkInfo,
}

#[derive(Clone, Debug, Default)]
pub struct SinkInfo {
    pub writes: usize,
    pub flushes: usize,
    pub total: u64,
    pub flushed_total: u64,
    pub hash: u64,
    pub failed: bool,
    pub calls_after_failure: usize,
    pub bytes_after_failure: u64,
    pub source_calls: usize,
}

impl SinkInfo {
    pub fn of(s: &SinkState) -> SinkInfo {
        SinkInfo {
            writes: s.writes,
            flushes: s.flushes,
            total: s.total,
            flushed_total: s.flushed_total,
            hash: s.hash,
            failed: s.failed(),
            calls_after_failure: s.calls_after_failure,
            bytes_after_failure: s.bytes_after_failure,
            source_calls: 0,
        }
    }
}

pub type DynRead<'a> = &'a mut dyn BufRead;

#[derive(Clone, Debug, Default)]
pub struct Io {
    pub sink: SinkCfg,
    /// fail the k-th source call (only honoured by Chunky readers)
    pub fail_read_at: Option<usize>,
    /// ... and every call after it
    pub fail_read_sticky: bool,
    /// the injected source failure is ErrorKind::Interrupted
    pub fail_read_interrupted: bool,
    /// (position, count): Interrupted `count` times in a row at that offset
    pub interrupt_burst: Option<(usize, usize)>,
}

/// Present `input` through `kind`, call `f(reader, sink)`, and report verdict,
/// sink contents and the reader's logical position.
pub fn run_with<E: std::fmt::Debug>(
    input: &[u8],
    kind: &ReaderKind,
    io: &Io,
    f: impl FnOnce(DynRead, &mut SinkState) -> Result<(), E>,
) -> Run {
    let mut sink = SinkState::new(io.sink.clone());
    let mut consumed = 0usize;
    let mut source_calls = 0usize;
    let res = guarded(|| match kind {
        ReaderKind::Slice => {
            let mut r: &[u8] = input;
            let res = f(&mut r, &mut sink);
            consumed = input.len() - r.len();
            res
        }
        ReaderKind::Cursor => {
            let mut c = Cursor::new(input);
            let res = f(&mut c, &mut sink);
            consumed = c.position() as usize;
            res
        }
        ReaderKind::BufReader { cap, reads } => {
            let src = ShortRead {
                data: input,
                pos: 0,
                pattern: reads.clone(),
                idx: 0,
            };
            let mut br = BufReader::with_capacity((*cap).max(1), src);
            let res = f(&mut br, &mut sink);
            let buffered = br.buffer().len();
            consumed = br.get_ref().pos - buffered;
            res
        }
        ReaderKind::Chunky { pattern, stops } => {
            let mut cr = ChunkyReader::new(input, pattern.clone()).with_stops(stops.clone());
            cr.fail_at = io.fail_read_at;
            cr.fail_sticky = io.fail_read_sticky;
            cr.fail_interrupted = io.fail_read_interrupted;
            cr.interrupt_burst = io.interrupt_burst;
            let res = f(&mut cr, &mut sink);
            consumed = cr.position();
            source_calls = cr.calls;
            res
        }
    });
    let verdict = match res {
        Ok(Ok(())) => Verdict::Ok,
        Ok(Err(e)) => Verdict::Err(format!("{:?}", e)),
        Err(p) => Verdict::Panic(p),
    };
    let mut info = SinkInfo::of(&sink);
    info.source_calls = source_calls;
    Run {
        verdict,
        out: std::mem::take(&mut sink.data),
        consumed,
        sink: info,
    }
}

pub fn lzma_props(p: Props) -> LzmaProperties {
    LzmaProperties {
        lc: p.lc,
        lp: p.lp,
        pb: p.pb,
    }
}

pub fn lzma_decompress(input: &[u8], opts: &Opts, kind: &ReaderKind, io: &Io) -> Run {
    let o = opts.to_lzma();
    run_with(input, kind, io, |mut r, w| {
        lzma_rs::lzma_decompress_with_options(&mut r, w, &o)
    })
}

/// The default-options wrapper `lzma_rs::lzma_decompress`.
pub fn lzma_decompress_wrapper(input: &[u8], kind: &ReaderKind, io: &Io) -> Run {
    run_with(input, kind, io, |mut r, w| lzma_rs::lzma_decompress(&mut r, w))
}

/// The default-options wrapper `lzma_rs::lzma_compress` (end marker, size unknown).
pub fn lzma_compress_wrapper(input: &[u8], kind: &ReaderKind, io: &Io) -> Run {
    run_with(input, kind, io, |mut r, w| lzma_rs::lzma_compress(&mut r, w))
}

pub fn lzma_decompress_simple(input: &[u8], opts: &Opts) -> Run {
    lzma_decompress(input, opts, &ReaderKind::Slice, &Io::default())
}

pub fn lzma2_decompress(input: &[u8], kind: &ReaderKind, io: &Io) -> Run {
    run_with(input, kind, io, |mut r, w| lzma_rs::lzma2_decompress(&mut r, w))
}

pub fn xz_decompress(input: &[u8], kind: &ReaderKind, io: &Io) -> Run {
    run_with(input, kind, io, |mut r, w| lzma_rs::xz_decompress(&mut r, w))
}

pub fn lzma_compress(input: &[u8], size_opt: CompOpt, kind: &ReaderKind, io: &Io) -> Run {
    use lzma_rs::compress as c;
    let o = c::Options {
        unpacked_size: match size_opt {
            CompOpt::HeaderNone => c::UnpackedSize::WriteToHeader(None),
            CompOpt::HeaderSome(n) => c::UnpackedSize::WriteToHeader(Some(n)),
            CompOpt::Skip => c::UnpackedSize::SkipWritingToHeader,
        },
    };
    run_with(input, kind, io, |mut r, w| {
        lzma_rs::lzma_compress_with_options(&mut r, w, &o)
    })
}

pub fn lzma2_compress(input: &[u8], kind: &ReaderKind, io: &Io) -> Run {
    run_with(input, kind, io, |mut r, w| lzma_rs::lzma2_compress(&mut r, w))
}

pub fn xz_compress(input: &[u8], kind: &ReaderKind, io: &Io) -> Run {
    run_with(input, kind, io, |mut r, w| lzma_rs::xz_compress(&mut r, w))
}

/// xz_compress over `n` copies of `byte` (never materialised) into a sink that
/// only counts and keeps the last 64 bytes: for inputs beyond 4 GiB.
pub struct HugeOut {
    pub verdict: Verdict,
    pub total: u64,
    pub tail: Vec<u8>,
}

pub fn xz_compress_huge(byte: u8, n: u64) -> HugeOut {
    struct TailSink {
        total: u64,
        tail: Vec<u8>,
    }
    impl std::io::Write for TailSink {
        fn write(&mut self, b: &[u8]) -> std::io::Result<usize> {
            self.total += b.len() as u64;
            if b.len() >= 64 {
                self.tail.clear();
                self.tail.extend_from_slice(&b[b.len() - 64..]);
            } else {
                self.tail.extend_from_slice(b);
                if self.tail.len() > 64 {
                    let d = self.tail.len() - 64;
                    self.tail.drain(..d);
                }
            }
            Ok(b.len())
        }
        fn flush(&mut self) -> std::io::Result<()> {
            Ok(())
        }
    }
    let mut sink = TailSink { total: 0, tail: Vec::new() };
    let res = guarded(|| {
        use std::io::Read;
        let mut r = std::io::BufReader::with_capacity(1 << 16, std::io::repeat(byte).take(n));
        lzma_rs::xz_compress(&mut r, &mut sink)
    });
    let verdict = match res {
        Ok(Ok(())) => Verdict::Ok,
        Ok(Err(e)) => Verdict::Err(format!("{:?}", e)),
        Err(p) => Verdict::Panic(p),
    };
    HugeOut { verdict, total: sink.total, tail: sink.tail }
}

#[derive(Clone, Copy, Debug, PartialEq, Eq, Hash, Serialize, Deserialize)]
pub enum CompOpt {
    HeaderNone,
    HeaderSome(u64),
    Skip,
}

/// One-shot raw LZMA decode with a fresh decoder.
pub fn raw_lzma(
    props: Props,
    dict: u32,
    size: Option<u64>,
    memlimit: Option<u64>,
    payload: &[u8],
    kind: &ReaderKind,
    io: &Io,
) -> Run {
    run_with(payload, kind, io, |mut r, w| {
        let params = LzmaParams::new(lzma_props(props), dict, size);
        let mut d = LzmaDecoder::new(params, memlimit.map(|m| m as usize))?;
        d.decompress(&mut r, w)
    })
}

/// Raw LZMA decode with a *reused* decoder object: constructed with size
/// `Some(init)`, then `reset(Some(size))`, optionally `reset(None)`, then decompress.
pub fn raw_lzma_reused(
    props: Props,
    dict: u32,
    init: u64,
    size: Option<u64>,
    second_reset_none: bool,
    payload: &[u8],
    kind: &ReaderKind,
    io: &Io,
) -> Run {
    run_with(payload, kind, io, |mut r, w| {
        let params = LzmaParams::new(lzma_props(props), dict, Some(init));
        let mut d = LzmaDecoder::new(params, None)?;
        d.reset(Some(size));
        if second_reset_none {
            d.reset(None);
        }
        d.decompress(&mut r, w)
    })
}

/// One raw LzmaDecoder object (size unknown): decompress `first` into a scratch
/// sink, then - WITHOUT reset - decompress `second`. Returns (first ok?, run of second).
pub fn raw_lzma_continue(props: Props, dict: u32, first: &[u8], second: &[u8], io: &Io) -> (bool, Vec<u8>, Run) {
    let mut first_ok = false;
    let mut first_out = Vec::new();
    let run = run_with(second, &ReaderKind::Slice, io, |mut r, w| {
        let params = LzmaParams::new(lzma_props(props), dict, None);
        let mut d = LzmaDecoder::new(params, None)?;
        let mut scratch = SinkState::new(Default::default());
        let mut f: &[u8] = first;
        first_ok = d.decompress(&mut f, &mut scratch).is_ok();
        first_out = std::mem::take(&mut scratch.data);
        d.decompress(&mut r, w)
    });
    (first_ok, first_out, run)
}

pub fn raw_lzma2(input: &[u8], kind: &ReaderKind, io: &Io) -> Run {
    run_with(input, kind, io, |mut r, w| {
        let mut d = Lzma2Decoder::new();
        d.decompress(&mut r, w)
    })
}

/// One raw Lzma2Decoder object: first fed `first` (result ignored), then
/// reset(), then the real input.
pub fn raw_lzma2_reused(first: &[u8], input: &[u8], kind: &ReaderKind, io: &Io) -> Run {
    run_with(input, kind, io, |mut r, w| {
        let mut d = Lzma2Decoder::new();
        let mut scratch = SinkState::new(Default::default());
        let mut f: &[u8] = first;
        let _ = d.decompress(&mut f, &mut scratch);
        d.reset();
        d.decompress(&mut r, w)
    })
}

// ---------------------------------------------------------------------------
// streaming decoder

#[derive(Clone, Debug, PartialEq, Eq, Hash, Serialize, Deserialize)]
pub enum Call {
    /// write this many further input bytes (driver loops until consumed, refused or error)
    Write(usize),
    /// a single write() call with this many bytes; result recorded, no retry
    WriteOnce(usize),
    Flush,
    GetOutput,
    /// get_output_mut() and flush the sink through it
    GetOutputMut,
}

#[derive(Clone, Debug)]
pub struct StreamStep {
    pub call: Call,
    /// Ok(n) / Err
    pub result: Result<usize, String>,
    pub sink_len_after: usize,
    pub input_pos_after: usize,
}

#[derive(Clone, Debug)]
pub struct StreamRun {
    /// overall verdict: first write error, else the result of finish
    pub verdict: Verdict,
    /// bytes in the sink at the very end
    pub out: Vec<u8>,
    pub steps: Vec<StreamStep>,
    /// result of finish() alone
    pub finish: Verdict,
    /// index of the first step whose write returned Err
    pub first_err_step: Option<usize>,
    /// some write refused input (Ok(0) on non-empty data)
    pub refused_at: Option<usize>,
    pub input_fed: usize,
    pub sink: SinkInfo,
    /// sink length snapshots are prefix-checked by callers through `out`
    pub n_write_calls: usize,
}

/// Drive a `Stream` over `input` with the given call script, then `finish`.
/// `after_error`: keep executing the script after a write error (C16) or stop.
pub fn stream_run(
    input: &[u8],
    opts: &Opts,
    script: &[Call],
    sink_cfg: &SinkCfg,
    keep_going_after_error: bool,
) -> StreamRun {
    stream_run_ext(input, opts, script, sink_cfg, keep_going_after_error, true)
}

/// `record_steps = false`: do not keep the per-call log (no harness allocations
/// proportional to the script; used when the heap is being measured).
pub fn stream_run_ext(
    input: &[u8],
    opts: &Opts,
    script: &[Call],
    sink_cfg: &SinkCfg,
    keep_going_after_error: bool,
    record_steps: bool,
) -> StreamRun {
    let sink = SharedSink::new(sink_cfg.clone());
    let o = opts.to_lzma();
    let mut steps: Vec<StreamStep> = Vec::new();
    let mut pos = 0usize;
    let mut first_err: Option<usize> = None;
    let mut first_err_msg = String::new();
    let mut refused_at = None;
    let mut n_write_calls = 0usize;
    let mut finish = Verdict::Ok;
    let r = guarded(|| {
        // `Stream::new` is the default-options constructor
        let mut s = if *opts == Opts::default() { Stream::new(sink.clone()) } else { Stream::new_with_options(&o, sink.clone()) };
        for (i, call) in script.iter().enumerate() {
            let result = match call {
                Call::Write(n) => {
                    let end = (pos + n).min(input.len());
                    let mut res = Ok(0usize);
                    let mut total = 0usize;
                    loop {
                        let piece = &input[pos..end];
                        n_write_calls += 1;
                        match s.write(piece) {
                            Ok(k) => {
                                total += k;
                                pos += k;
                                res = Ok(total);
                                if piece.is_empty() {
                                    break;
                                }
                                if k == 0 {
                                    if refused_at.is_none() {
                                        refused_at = Some(i);
                                    }
                                    break;
                                }
                                if pos >= end {
                                    break;
                                }
                            }
                            Err(e) => {
                                res = Err(format!("{:?}", e));
                                break;
                            }
                        }
                    }
                    res
                }
                Call::WriteOnce(n) => {
                    let end = (pos + n).min(input.len());
                    let piece = &input[pos..end];
                    n_write_calls += 1;
                    match s.write(piece) {
                        Ok(k) => {
                            pos += k;
                            if k == 0 && !piece.is_empty() && refused_at.is_none() {
                                refused_at = Some(i);
                            }
                            Ok(k)
                        }
                        Err(e) => Err(format!("{:?}", e)),
                    }
                }
                Call::Flush => s.flush().map(|_| 0).map_err(|e| format!("{:?}", e)),
                Call::GetOutput => Ok(s.get_output().map(|o| o.len()).unwrap_or(usize::MAX)),
                Call::GetOutputMut => match s.get_output_mut() {
                    Some(o) => o.flush().map(|_| 0).map_err(|e| format!("{:?}", e)),
                    None => Ok(usize::MAX),
                },
            };
            let is_write = matches!(call, Call::Write(_) | Call::WriteOnce(_));
            let failed = result.is_err() && is_write;
            if failed && first_err.is_none() {
                first_err = Some(i);
                first_err_msg = result.clone().unwrap_err();
            }
            if record_steps {
                steps.push(StreamStep {
                    call: call.clone(),
                    result,
                    sink_len_after: sink.len(),
                    input_pos_after: pos,
                });
            }
            if failed && !keep_going_after_error {
                break;
            }
        }
        finish = match s.finish() {
            Ok(_) => Verdict::Ok,
            Err(e) => Verdict::Err(format!("{:?}", e)),
        };
    });
    let verdict = match r {
        Err(p) => {
            finish = Verdict::Panic(p.clone());
            Verdict::Panic(p)
        }
        Ok(()) => {
            if first_err.is_some() {
                Verdict::Err(first_err_msg)
            } else {
                finish.clone()
            }
        }
    };
    let st = sink.0.borrow();
    StreamRun {
        verdict,
        out: st.data.clone(),
        steps,
        finish,
        first_err_step: first_err,
        refused_at,
        input_fed: pos,
        sink: SinkInfo::of(&st),
        n_write_calls,
    }
}

/// Convenience: feed `input` in the given piece sizes (the remainder in one
/// last piece), then finish.
pub fn stream_chunked(input: &[u8], opts: &Opts, pieces: &[usize]) -> StreamRun {
    let mut script: Vec<Call> = Vec::new();
    let mut total = 0usize;
    for &p in pieces {
        if total >= input.len() && p > 0 {
            break;
        }
        script.push(Call::Write(p));
        total += p;
    }
    if total < input.len() {
        script.push(Call::Write(input.len() - total));
    }
    stream_run(input, opts, &script, &SinkCfg::default(), false)
}
