//! Parallel proptest driver, statistics, evidence, replay files, known findings.

use proptest::strategy::{BoxedStrategy, Strategy};
use proptest::test_runner::{Config, RngSeed, TestCaseError, TestError, TestRunner};
use serde::de::DeserializeOwned;
use serde::Serialize;
use serde_json::{json, Value};
use std::collections::{BTreeMap, HashSet};
use std::fmt::Debug;
use std::hash::{Hash, Hasher};
use std::path::{Path, PathBuf};
use std::sync::atomic::{AtomicBool, AtomicU64, Ordering};
use std::sync::Mutex;
use std::time::Instant;

#[derive(Clone, Copy, Debug, PartialEq, Eq)]
pub enum Tier {
    Quick,
    Thorough,
}

impl Tier {
    pub fn name(&self) -> &'static str {
        match self {
            Tier::Quick => "quick",
            Tier::Thorough => "thorough",
        }
    }
    pub fn pick<T>(&self, q: T, t: T) -> T {
        match self {
            Tier::Quick => q,
            Tier::Thorough => t,
        }
    }
}

pub fn verif_dir() -> PathBuf {
    std::env::var("VERIF_DIR")
        .map(PathBuf::from)
        .unwrap_or_else(|_| PathBuf::from("/verif"))
}

/// Is this binary built with overflow checks / debug assertions?
pub fn checked_build() -> bool {
    cfg!(debug_assertions)
}

// ---------------------------------------------------------------------------

#[derive(Default)]
pub struct LocalStats {
    pub evaluations: u64,
    pub classes: BTreeMap<String, u64>,
    pub nontrivial: HashSet<u64>,
    pub samples: Vec<(String, Value)>,
    pub known: BTreeMap<String, (u64, String)>,
    pub maxima: BTreeMap<String, u64>,
    pub frozen: bool,
}

impl LocalStats {
    /// count one evaluation of the system under test
    pub fn eval(&mut self) {
        if !self.frozen {
            self.evaluations += 1;
        }
    }
    pub fn evals(&mut self, n: u64) {
        if !self.frozen {
            self.evaluations += n;
        }
    }
    pub fn class(&mut self, name: &str) {
        if !self.frozen {
            *self.classes.entry(name.to_string()).or_insert(0) += 1;
        }
    }
    pub fn class_n(&mut self, name: &str, n: u64) {
        if !self.frozen && n > 0 {
            *self.classes.entry(name.to_string()).or_insert(0) += n;
        }
    }
    pub fn max(&mut self, name: &str, v: u64) {
        if !self.frozen {
            let e = self.maxima.entry(name.to_string()).or_insert(0);
            if v > *e {
                *e = v;
            }
        }
    }
    /// register a non-trivial case by a hash of its concrete content
    pub fn nontrivial<H: Hash>(&mut self, h: &H) {
        if !self.frozen {
            self.nontrivial.insert(hash64(h));
        }
    }
    /// keep a sample of this kind if none is kept yet
    pub fn sample(&mut self, kind: &str, f: impl FnOnce() -> Value) {
        if !self.frozen && self.samples.len() < 40 && !self.samples.iter().any(|(k, _)| k == kind) {
            self.samples.push((kind.to_string(), f()));
        }
    }
    fn merge(&mut self, o: LocalStats) {
        self.evaluations += o.evaluations;
        for (k, v) in o.classes {
            *self.classes.entry(k).or_insert(0) += v;
        }
        self.nontrivial.extend(o.nontrivial);
        for (k, v) in o.samples {
            if !self.samples.iter().any(|(kk, _)| *kk == k) {
                self.samples.push((k, v));
            }
        }
        for (k, (n, t)) in o.known {
            let e = self.known.entry(k).or_insert((0, t));
            e.0 += n;
        }
        for (k, v) in o.maxima {
            let e = self.maxima.entry(k).or_insert(0);
            if v > *e {
                *e = v;
            }
        }
    }
}

pub fn hash64<H: Hash>(h: &H) -> u64 {
    // SipHash with the fixed default key (DefaultHasher::new() is keyed 0,0)
    #[allow(deprecated)]
    let mut s = std::hash::SipHasher::new_with_keys(0x5eed, 0xf00d);
    h.hash(&mut s);
    s.finish()
}

#[derive(Clone, Debug)]
pub enum Judgement {
    Pass,
    /// property violated. `sig` identifies the root cause class (for known
    /// findings); `focus` optionally narrows the replay case.
    Violation { sig: String, msg: String },
    /// the harness' own references disagree: not a property verdict
    HarnessBug(String),
}

impl Judgement {
    pub fn violation(sig: impl Into<String>, msg: impl Into<String>) -> Judgement {
        Judgement::Violation {
            sig: sig.into(),
            msg: msg.into(),
        }
    }
}

/// One property = generator + concretisation + oracle.
pub trait Property: Sync {
    type Abs: Debug + Clone + Send + 'static;
    type Case: Serialize + DeserializeOwned + Debug + Clone + Send + 'static;
    fn id(&self) -> &'static str;
    fn strategy(&self, tier: Tier) -> BoxedStrategy<Self::Abs>;
    fn concretize(&self, a: &Self::Abs) -> Self::Case;
    /// Judge one case. May narrow `case` (e.g. to the single failing mutation)
    /// so that the replay file is minimal.
    fn judge(&self, case: &mut Self::Case, st: &mut LocalStats) -> Judgement;
    fn cases(&self, tier: Tier) -> u32;
    fn rule(&self) -> String;
    fn assumptions(&self) -> Vec<String> {
        vec![]
    }
    /// classes that must have been hit at least this often, else the generator
    /// is considered degenerate (exit 2)
    fn required_classes(&self, _tier: Tier) -> Vec<(&'static str, u64)> {
        vec![]
    }
    /// extra deterministic batches run once (worker 0) before the random search
    fn fixed_cases(&self, _tier: Tier) -> Vec<Self::Case> {
        vec![]
    }
    fn level(&self) -> &'static str {
        "exploration"
    }
    fn exhaustive_per_case(&self) -> bool {
        false
    }
    /// a case that does not return within the watchdog limit is a violation of
    /// the property itself (C07) rather than a harness problem
    fn hang_is_violation(&self) -> bool {
        false
    }
    /// an allocation request that the system refuses (the process would abort)
    /// is a violation of the property itself (C07, C10) when the request is
    /// beyond anything the inputs could justify
    fn alloc_failure_is_violation(&self) -> bool {
        false
    }
}

/// a refused request of at least this many bytes cannot be explained by memory
/// pressure from neighbouring processes (the machine has less)
pub const ABSURD_ALLOC: usize = 1 << 36;

thread_local! {
    static WORKER: std::cell::Cell<Option<usize>> = const { std::cell::Cell::new(None) };
}

/// Judge with the harness' own panics turned into HarnessBug.
pub fn judge_safe<P: Property>(p: &P, case: &mut P::Case, st: &mut LocalStats) -> Judgement {
    match crate::sut::guarded(|| p.judge(case, st)) {
        Ok(j) => j,
        Err(panic) => Judgement::HarnessBug(format!("harness panicked: {}", panic)),
    }
}

// ---------------------------------------------------------------------------
// known findings

#[derive(Clone, Debug, Default)]
pub struct Known {
    /// (property, sig) -> text
    pub open: Vec<(String, String, String)>,
}

impl Known {
    pub fn load() -> Known {
        let p = verif_dir().join("KNOWN_FINDINGS.txt");
        let mut k = Known::default();
        if let Ok(s) = std::fs::read_to_string(p) {
            for line in s.lines() {
                let line = line.trim();
                if let Some(rest) = line.strip_prefix("open:") {
                    let mut prop = String::new();
                    let mut sig = String::new();
                    let mut text = Vec::new();
                    for tok in rest.split_whitespace() {
                        if let Some(v) = tok.strip_prefix("property=") {
                            prop = v.to_string();
                        } else if let Some(v) = tok.strip_prefix("sig=") {
                            sig = v.to_string();
                        } else {
                            text.push(tok);
                        }
                    }
                    if !prop.is_empty() && !sig.is_empty() {
                        k.open.push((prop, sig, text.join(" ")));
                    }
                }
            }
        }
        k
    }
    pub fn matches(&self, prop: &str, sig: &str) -> Option<&str> {
        self.open
            .iter()
            .find(|(p, s, _)| p == prop && s == sig)
            .map(|(_, _, t)| t.as_str())
    }
}

// ---------------------------------------------------------------------------

pub struct Outcome {
    pub stats: LocalStats,
    pub violations: Vec<ViolationReport>,
    pub harness_bugs: Vec<String>,
    pub wall_s: f64,
}

#[derive(Clone, Debug)]
pub struct ViolationReport {
    pub sig: String,
    pub msg: String,
    pub replay: PathBuf,
}

fn seed_for(base: u64, prop: &str, worker: u64) -> u64 {
    hash64(&(base, prop, worker, "verif-lzma-rs"))
}

pub fn n_workers() -> usize {
    std::env::var("VERIF_WORKERS")
        .ok()
        .and_then(|s| s.parse().ok())
        .unwrap_or_else(|| {
            std::thread::available_parallelism()
                .map(|n| n.get())
                .unwrap_or(4)
                .min(16)
        })
}

pub fn write_replay<P: Property>(
    p: &P,
    case: &P::Case,
    sig: &str,
    msg: &str,
    seed: u64,
    tier: Tier,
) -> PathBuf {
    write_replay_id(p.id(), case, sig, msg, seed, tier)
}

pub fn write_replay_id<C: Serialize>(
    id: &str,
    case: &C,
    sig: &str,
    msg: &str,
    seed: u64,
    tier: Tier,
) -> PathBuf {
    let dir = verif_dir().join("replays");
    let _ = std::fs::create_dir_all(&dir);
    let v = json!({
        "property": id,
        "sig": sig,
        "message": msg,
        "seed": seed,
        "tier": tier.name(),
        "build": if checked_build() { "checked" } else { "release" },
        "case": case,
    });
    let text = serde_json::to_string_pretty(&v).unwrap();
    let h = hash64(&text);
    let path = dir.join(format!("{}-{:016x}.json", id, h));
    let _ = std::fs::write(&path, text);
    path
}

/// Run the search for one property.
pub fn explore<P: Property>(p: &P, tier: Tier, seed: u64) -> Outcome {
    let t0 = Instant::now();
    let known = Known::load();
    let workers = n_workers();
    let total_cases = std::env::var("VERIF_CASES")
        .ok()
        .and_then(|s| s.parse::<u32>().ok())
        .unwrap_or_else(|| p.cases(tier));
    let per_worker = (total_cases + workers as u32 - 1) / workers as u32;
    let stop = AtomicBool::new(false);
    let merged = Mutex::new(LocalStats::default());
    let violations: Mutex<Vec<ViolationReport>> = Mutex::new(Vec::new());
    let harness_bugs: Mutex<Vec<String>> = Mutex::new(Vec::new());
    let progress = AtomicU64::new(0);
    let slots: std::sync::Arc<Vec<Mutex<Option<(Instant, P::Case)>>>> =
        std::sync::Arc::new((0..workers).map(|_| Mutex::new(None)).collect());
    {
        let slots = slots.clone();
        let id = p.id();
        let is_violation = p.alloc_failure_is_violation();
        crate::alloc::set_fail_hook(Some(Box::new(move |size| {
            let case = WORKER
                .with(|c| c.get())
                .and_then(|w| slots[w].lock().ok().and_then(|g| g.as_ref().map(|(_, c)| c.clone())));
            let msg = format!("the allocator refused a request of {} bytes (the process would abort)", size);
            let path = match &case {
                Some(c) => write_replay_id(id, c, "alloc-failure", &msg, seed, tier).display().to_string(),
                None => "(no case in flight)".to_string(),
            };
            if is_violation && size >= ABSURD_ALLOC && case.is_some() {
                println!("VIOLATION property={} replay={}", id, path);
                println!("  sig=alloc-failure {}", msg);
                std::process::exit(1);
            }
            eprintln!("HARNESS-PROBLEM property={} {} (inconclusive); case saved as {}", id, msg, path);
            std::process::exit(2);
        })));
    }
    let done = AtomicBool::new(false);
    let remaining = AtomicU64::new(workers as u64);
    let limit_s: u64 = std::env::var("VERIF_CASE_TIMEOUT")
        .ok()
        .and_then(|s| s.parse().ok())
        .unwrap_or(120);

    std::thread::scope(|scope| {
        // watchdog
        {
            let slots = &slots;
            let done = &done;
            scope.spawn(move || {
                while !done.load(Ordering::Relaxed) {
                    std::thread::sleep(std::time::Duration::from_millis(250));
                    for sl in slots.iter() {
                        let g = sl.lock().unwrap();
                        if let Some((t, case)) = g.as_ref() {
                            if t.elapsed().as_secs() >= limit_s {
                                let path = write_replay(p, case, "no-return", "case did not return within the watchdog limit", seed, tier);
                                if p.hang_is_violation() {
                                    println!("VIOLATION property={} replay={}", p.id(), path.display());
                                    println!("  sig=no-return the call did not return within {} s", limit_s);
                                    std::process::exit(1);
                                } else {
                                    eprintln!(
                                        "HARNESS-PROBLEM property={} a case ran longer than {} s (inconclusive); saved as {}",
                                        p.id(),
                                        limit_s,
                                        path.display()
                                    );
                                    std::process::exit(2);
                                }
                            }
                        }
                    }
                }
            });
        }

        for w in 0..workers {
            let known = &known;
            let stop = &stop;
            let merged = &merged;
            let violations = &violations;
            let harness_bugs = &harness_bugs;
            let progress = &progress;
            let slots = &slots;
            let done = &done;
            let remaining = &remaining;
            std::thread::Builder::new()
                .name(format!("w{}", w))
                .stack_size(64 << 20)
                .spawn_scoped(scope, move || {
                    WORKER.with(|c| c.set(Some(w)));
                    let mut st = LocalStats::default();
                    // fixed batch: split round-robin over the workers
                    let fixed = p.fixed_cases(tier);
                    for (i, mut c) in fixed.into_iter().enumerate() {
                        if i % workers != w || stop.load(Ordering::Relaxed) {
                            continue;
                        }
                        *slots[w].lock().unwrap() = Some((Instant::now(), c.clone()));
                        let jr = judge_safe(p, &mut c, &mut st);
                        *slots[w].lock().unwrap() = None;
                        match jr {
                            Judgement::Pass => {}
                            Judgement::Violation { sig, msg } => {
                                if let Some(t) = known.matches(p.id(), &sig) {
                                    let e = st.known.entry(sig.clone()).or_insert((0, t.to_string()));
                                    e.0 += 1;
                                } else {
                                    let path = write_replay(p, &c, &sig, &msg, seed, tier);
                                    violations.lock().unwrap().push(ViolationReport {
                                        sig,
                                        msg,
                                        replay: path,
                                    });
                                    stop.store(true, Ordering::Relaxed);
                                }
                            }
                            Judgement::HarnessBug(m) => {
                                harness_bugs.lock().unwrap().push(m);
                                stop.store(true, Ordering::Relaxed);
                            }
                        }
                    }
                    let cfg = Config {
                        cases: per_worker,
                        rng_seed: RngSeed::Fixed(seed_for(seed, p.id(), w as u64)),
                        failure_persistence: None,
                        max_shrink_iters: 3000,
                        max_shrink_time: 60_000,
                        max_global_rejects: 16,
                        verbose: 0,
                        ..Config::default()
                    };
                    let mut runner = TestRunner::new(cfg);
                    let strat = p.strategy(tier);
                    let stc = std::cell::RefCell::new(&mut st);
                    let res = runner.run(&strat, |abs| {
                        if stop.load(Ordering::Relaxed) && !stc.borrow().frozen {
                            return Err(TestCaseError::reject("stopped"));
                        }
                        let mut case = p.concretize(&abs);
                        let mut stb = stc.borrow_mut();
                        *slots[w].lock().unwrap() = Some((Instant::now(), case.clone()));
                        let j = judge_safe(p, &mut case, &mut stb);
                        *slots[w].lock().unwrap() = None;
                        progress.fetch_add(1, Ordering::Relaxed);
                        match j {
                            Judgement::Pass => Ok(()),
                            Judgement::Violation { sig, msg } => {
                                if let Some(t) = known.matches(p.id(), &sig) {
                                    if !stb.frozen {
                                        let e = stb
                                            .known
                                            .entry(sig.clone())
                                            .or_insert((0, t.to_string()));
                                        e.0 += 1;
                                    }
                                    Ok(())
                                } else {
                                    // from here on proptest shrinks: stop counting
                                    stb.frozen = true;
                                    Err(TestCaseError::fail(format!("[{}] {}", sig, msg)))
                                }
                            }
                            Judgement::HarnessBug(m) => {
                                stb.frozen = true;
                                Err(TestCaseError::fail(format!("HARNESS-BUG {}", m)))
                            }
                        }
                    });
                    drop(stc);
                    match res {
                        Ok(()) => {}
                        Err(TestError::Abort(_)) => {}
                        Err(TestError::Fail(_, abs)) => {
                            stop.store(true, Ordering::Relaxed);
                            let mut case = p.concretize(&abs);
                            let mut scratch = LocalStats::default();
                            scratch.frozen = true;
                            match judge_safe(p, &mut case, &mut scratch) {
                                Judgement::Violation { sig, msg } => {
                                    let path = write_replay(p, &case, &sig, &msg, seed, tier);
                                    violations.lock().unwrap().push(ViolationReport {
                                        sig,
                                        msg,
                                        replay: path,
                                    });
                                }
                                Judgement::HarnessBug(m) => {
                                    let path = write_replay(p, &case, "harness-problem", &m, seed, tier);
                                    harness_bugs.lock().unwrap().push(format!("{} (case saved as {})", m, path.display()));
                                }
                                Judgement::Pass => harness_bugs.lock().unwrap().push(
                                    "shrunk case passes on re-judgement (non-deterministic oracle?)"
                                        .to_string(),
                                ),
                            }
                        }
                    }
                    st.frozen = false;
                    merged.lock().unwrap().merge(st);
                    if remaining.fetch_sub(1, Ordering::SeqCst) == 1 {
                        done.store(true, Ordering::Relaxed);
                    }
                })
                .expect("spawn worker");
        }
    });
    crate::alloc::set_fail_hook(None);
    Outcome {
        stats: merged.into_inner().unwrap(),
        violations: violations.into_inner().unwrap(),
        harness_bugs: harness_bugs.into_inner().unwrap(),
        wall_s: t0.elapsed().as_secs_f64(),
    }
}

/// Re-judge regression replays (strict: a violation there is a violation).
pub fn run_regress<P: Property>(p: &P, st: &mut LocalStats) -> Vec<ViolationReport> {
    let dir = verif_dir().join("replays").join("regress");
    let mut v = Vec::new();
    let known = Known::load();
    let mut files: Vec<PathBuf> = match std::fs::read_dir(&dir) {
        Ok(rd) => rd.filter_map(|e| e.ok()).map(|e| e.path()).collect(),
        Err(_) => vec![],
    };
    files.sort();
    for f in files {
        let name = f.file_name().unwrap().to_string_lossy().to_string();
        if !name.starts_with(p.id()) || !name.ends_with(".json") {
            continue;
        }
        install_replay_fail_hook(p, &f);
        start_replay_watchdog(p);
        *REPLAY_SLOT.lock().unwrap() = Some((Instant::now(), f.clone()));
        let rr = replay_file(p, &f, st);
        *REPLAY_SLOT.lock().unwrap() = None;
        match rr {
            Ok(Judgement::Violation { sig, msg }) => {
                if known.matches(p.id(), &sig).is_some() {
                    let e = st.known.entry(sig).or_insert((0, msg));
                    e.0 += 1;
                } else {
                    v.push(ViolationReport {
                        sig,
                        msg,
                        replay: f.clone(),
                    })
                }
            }
            Ok(_) => {
                st.class("regress_replays_passed");
            }
            Err(e) => eprintln!("warning: cannot replay {}: {}", f.display(), e),
        }
    }
    v
}

pub fn replay_file<P: Property>(p: &P, path: &Path, st: &mut LocalStats) -> Result<Judgement, String> {
    let text = std::fs::read_to_string(path).map_err(|e| e.to_string())?;
    let v: Value = serde_json::from_str(&text).map_err(|e| e.to_string())?;
    let mut case: P::Case =
        serde_json::from_value(v.get("case").cloned().ok_or("no case")?).map_err(|e| e.to_string())?;
    Ok(judge_safe(p, &mut case, st))
}

// ---------------------------------------------------------------------------
// evidence

pub fn evidence_json<P: Property>(
    p: &P,
    tier: Tier,
    seed: u64,
    out: &Outcome,
    extra: Value,
) -> Value {
    let samples: Vec<Value> = out
        .stats
        .samples
        .iter()
        .take(12)
        .map(|(k, v)| json!({"class": k, "case": v}))
        .collect();
    let mut coverage = json!({
        "evaluations": out.stats.evaluations,
        "distinct_nontrivial": out.stats.nontrivial.len(),
        "rule": p.rule(),
        "samples": samples,
        "classes": out.stats.classes,
        "maxima": out.stats.maxima,
        "known_findings_hit": out.stats.known.iter().map(|(k,(n,_))| (k.clone(), *n)).collect::<BTreeMap<_,_>>(),
        "build": if checked_build() { "checked (overflow-checks, debug-assertions)" } else { "release (wrapping arithmetic)" },
        "workers": n_workers(),
    });
    if p.exhaustive_per_case() {
        coverage["exhaustive_per_case"] = json!(true);
    }
    if let (Some(c), Some(e)) = (coverage.as_object_mut(), extra.as_object()) {
        for (k, v) in e {
            c.insert(k.clone(), v.clone());
        }
    }
    json!({
        "property_id": p.id(),
        "tier": tier.name(),
        "seed": seed,
        "level": p.level(),
        "coverage": coverage,
        "assumptions": p.assumptions(),
        "wall_s": (out.wall_s * 1000.0).round() / 1000.0,
        "violations": out.violations.len(),
    })
}

/// Merge the evidence of an earlier run of the *other* build into this one.
pub fn merge_evidence(mut mine: Value, other: &Value) -> Value {
    let oc = &other["coverage"];
    let c = mine["coverage"].as_object_mut().unwrap();
    let ev = c["evaluations"].as_u64().unwrap_or(0) + oc["evaluations"].as_u64().unwrap_or(0);
    c.insert("evaluations".into(), json!(ev));
    // the same generated inputs are judged on both builds: count distinct once
    let dn = c["distinct_nontrivial"]
        .as_u64()
        .unwrap_or(0)
        .max(oc["distinct_nontrivial"].as_u64().unwrap_or(0));
    c.insert("distinct_nontrivial".into(), json!(dn));
    c.insert(
        "builds".into(),
        json!([c.get("build").cloned().unwrap_or(Value::Null), oc["build"].clone()]),
    );
    c.insert("other_build_classes".into(), oc["classes"].clone());
    c.insert("other_build_evaluations".into(), oc["evaluations"].clone());
    let w = mine["wall_s"].as_f64().unwrap_or(0.0) + other["wall_s"].as_f64().unwrap_or(0.0);
    mine["wall_s"] = json!(w);
    let v = mine["violations"].as_u64().unwrap_or(0) + other["violations"].as_u64().unwrap_or(0);
    mine["violations"] = json!(v);
    mine
}

pub struct CheckArgs {
    pub tier: Tier,
    pub seed: u64,
    /// write evidence here instead of evidence/<ID>.json
    pub evidence_out: Option<PathBuf>,
    /// merge this earlier partial evidence
    pub merge: Option<PathBuf>,
}

/// Full check of one property: regress replays + search + evidence + verdict.
/// Returns the process exit code.
pub fn run_check<P: Property>(p: &P, args: &CheckArgs, extra: Value) -> i32 {
    crate::sut::install_panic_hook();
    let mut pre = LocalStats::default();
    let mut viol = run_regress(p, &mut pre);
    let mut out = explore(p, args.tier, args.seed);
    out.stats.merge(pre);
    viol.append(&mut out.violations);
    out.violations = viol;
    // generator health
    let mut degenerate = Vec::new();
    if out.violations.is_empty() && out.harness_bugs.is_empty() && std::env::var("VERIF_CASES").is_err() {
        for (cls, min) in p.required_classes(args.tier) {
            let got = out.stats.classes.get(cls).copied().unwrap_or(0);
            if got < min {
                degenerate.push(format!("class '{}' hit {} times (< {})", cls, got, min));
            }
        }
    }
    let mut ev = evidence_json(p, args.tier, args.seed, &out, extra);
    if let Some(m) = &args.merge {
        if let Ok(t) = std::fs::read_to_string(m) {
            if let Ok(o) = serde_json::from_str::<Value>(&t) {
                ev = merge_evidence(ev, &o);
            }
        }
    }
    let path = args
        .evidence_out
        .clone()
        .unwrap_or_else(|| verif_dir().join("evidence").join(format!("{}.json", p.id())));
    if let Some(d) = path.parent() {
        let _ = std::fs::create_dir_all(d);
    }
    let _ = std::fs::write(&path, serde_json::to_string_pretty(&ev).unwrap());
    for (sig, (n, text)) in &out.stats.known {
        println!("KNOWN-FINDING: property={} sig={} hits={} {}", p.id(), sig, n, text);
    }
    println!(
        "{} {} [{}]: {} evaluations, {} distinct non-trivial, {:.1}s",
        p.id(),
        args.tier.name(),
        if checked_build() { "checked" } else { "release" },
        out.stats.evaluations,
        out.stats.nontrivial.len(),
        out.wall_s
    );
    if !out.harness_bugs.is_empty() {
        for b in &out.harness_bugs {
            eprintln!("HARNESS-PROBLEM property={} {}", p.id(), b);
        }
        return 2;
    }
    if !out.violations.is_empty() {
        let mut seen = HashSet::new();
        for v in &out.violations {
            if seen.insert(v.sig.clone()) {
                println!("VIOLATION property={} replay={}", p.id(), v.replay.display());
                println!("  sig={} {}", v.sig, crate::sut::trunc(&v.msg, 600));
            }
        }
        return 1;
    }
    if !degenerate.is_empty() {
        for d in degenerate {
            eprintln!("HARNESS-PROBLEM property={} generator degenerate: {}", p.id(), d);
        }
        return 2;
    }
    0
}

static REPLAY_SLOT: Mutex<Option<(Instant, PathBuf)>> = Mutex::new(None);
static REPLAY_WATCHDOG: std::sync::Once = std::sync::Once::new();

/// Watchdog for replays (the search has its own): a replay that does not
/// return is reported like a case that does not return.
fn start_replay_watchdog<P: Property>(p: &P) {
    let id = p.id();
    let is_violation = p.hang_is_violation();
    let limit_s: u64 = std::env::var("VERIF_CASE_TIMEOUT")
        .ok()
        .and_then(|s| s.parse().ok())
        .unwrap_or(120);
    REPLAY_WATCHDOG.call_once(|| {
        std::thread::spawn(move || loop {
            std::thread::sleep(std::time::Duration::from_millis(250));
            let g = REPLAY_SLOT.lock().unwrap();
            if let Some((t, path)) = g.as_ref() {
                if t.elapsed().as_secs() >= limit_s {
                    if is_violation {
                        println!("VIOLATION property={} replay={}", id, path.display());
                        println!("  sig=no-return the call did not return within {} s", limit_s);
                        std::process::exit(1);
                    }
                    eprintln!(
                        "HARNESS-PROBLEM property={} replaying {} took longer than {} s (inconclusive)",
                        id,
                        path.display(),
                        limit_s
                    );
                    std::process::exit(2);
                }
            }
        });
    });
}

fn install_replay_fail_hook<P: Property>(p: &P, path: &Path) {
    let id = p.id();
    let is_violation = p.alloc_failure_is_violation();
    let shown = path.display().to_string();
    crate::alloc::set_fail_hook(Some(Box::new(move |size| {
        if is_violation && size >= ABSURD_ALLOC {
            println!("VIOLATION property={} replay={}", id, shown);
            println!("  sig=alloc-failure the allocator refused a request of {} bytes", size);
            std::process::exit(1);
        }
        eprintln!(
            "HARNESS-PROBLEM property={} the allocator refused a request of {} bytes while replaying {} (inconclusive)",
            id, size, shown
        );
        std::process::exit(2);
    })));
}

pub fn run_replay<P: Property>(p: &P, path: &Path) -> i32 {
    crate::sut::install_panic_hook();
    install_replay_fail_hook(p, path);
    start_replay_watchdog(p);
    *REPLAY_SLOT.lock().unwrap() = Some((Instant::now(), path.to_path_buf()));
    let mut st = LocalStats::default();
    let rr = replay_file(p, path, &mut st);
    *REPLAY_SLOT.lock().unwrap() = None;
    match rr {
        Ok(Judgement::Pass) => {
            println!("replay {}: property holds on this case", path.display());
            0
        }
        Ok(Judgement::Violation { sig, msg }) => {
            println!("VIOLATION property={} replay={}", p.id(), path.display());
            println!("  sig={} {}", sig, msg);
            1
        }
        Ok(Judgement::HarnessBug(m)) => {
            eprintln!("HARNESS-PROBLEM {}", m);
            2
        }
        Err(e) => {
            eprintln!("cannot replay: {}", e);
            2
        }
    }
}

pub fn hex(b: &[u8]) -> String {
    let mut s = String::with_capacity(b.len() * 2);
    for x in b {
        s.push_str(&format!("{:02x}", x));
    }
    s
}

pub fn hex_prefix(b: &[u8], n: usize) -> String {
    if b.len() <= n {
        hex(b)
    } else {
        format!("{}…(+{}B)", hex(&b[..n]), b.len() - n)
    }
}

/// boxed strategy helper
pub fn boxed<S: Strategy + 'static>(s: S) -> BoxedStrategy<S::Value>
where
    S::Value: Debug,
{
    s.boxed()
}
