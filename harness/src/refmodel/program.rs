//! Symbol programs and their direct interpretation: this *defines* "the bytes
//! the format defines for that stream". No range coding here.

use serde::{Deserialize, Serialize};

pub const MIN_LEN: u32 = 2;
pub const MAX_LEN: u32 = 273;

#[derive(Clone, Copy, Debug, PartialEq, Eq, Hash, Serialize, Deserialize)]
pub enum Op {
    /// literal byte
    Lit(u8),
    /// new match; `dist` is the 1-based distance (1 = previous byte)
    Match { dist: u32, len: u32 },
    /// one byte from rep0
    ShortRep,
    /// repeated-distance match using rep[idx]
    Rep { idx: u8, len: u32 },
}

impl Op {
    pub fn is_copy(&self) -> bool {
        !matches!(self, Op::Lit(_))
    }
    pub fn short(&self) -> String {
        match self {
            Op::Lit(b) => format!("L{:02x}", b),
            Op::Match { dist, len } => format!("M(d{},l{})", dist, len),
            Op::ShortRep => "SR".to_string(),
            Op::Rep { idx, len } => format!("R{}(l{})", idx, len),
        }
    }
}

pub fn program_text(ops: &[Op], max: usize) -> String {
    let mut s = String::new();
    for (i, op) in ops.iter().enumerate() {
        if i >= max {
            s.push_str(&format!(" …(+{} ops)", ops.len() - max));
            break;
        }
        if i > 0 {
            s.push(' ');
        }
        s.push_str(&op.short());
    }
    s
}

#[derive(Clone, Debug, PartialEq, Eq)]
pub enum Invalid {
    /// copy distance exceeds bytes produced since the last dictionary reset
    BeyondOutput { op_index: usize, dist: u64, avail: u64 },
    /// copy distance exceeds the dictionary size
    BeyondDict { op_index: usize, dist: u64, dict: u64 },
    BadLen { op_index: usize },
}

/// Interpreter state. `out` holds everything produced so far; `base` is the
/// index in `out` where the current dictionary epoch starts (LZMA2 dictionary
/// reset moves it to `out.len()`).
#[derive(Clone)]
pub struct Interp {
    pub out: Vec<u8>,
    pub base: usize,
    pub reps: [u32; 4],
    pub dict: u64,
    pub n_ops: usize,
}

impl Interp {
    pub fn new(dict: u64) -> Self {
        Interp {
            out: Vec::new(),
            base: 0,
            reps: [0; 4],
            dict,
            n_ops: 0,
        }
    }

    pub fn avail(&self) -> u64 {
        (self.out.len() - self.base) as u64
    }

    /// Can a copy with this 1-based distance be performed now?
    pub fn dist_ok(&self, dist: u64) -> bool {
        dist >= 1 && dist <= self.avail() && dist <= self.dict
    }

    pub fn max_dist(&self) -> u64 {
        self.avail().min(self.dict)
    }

    fn check(&self, dist: u64) -> Result<(), Invalid> {
        if dist > self.dict {
            return Err(Invalid::BeyondDict {
                op_index: self.n_ops,
                dist,
                dict: self.dict,
            });
        }
        if dist > self.avail() {
            return Err(Invalid::BeyondOutput {
                op_index: self.n_ops,
                dist,
                avail: self.avail(),
            });
        }
        Ok(())
    }

    fn copy(&mut self, dist: usize, len: usize) {
        let mut src = self.out.len() - dist;
        self.out.reserve(len);
        for _ in 0..len {
            let b = self.out[src];
            self.out.push(b);
            src += 1;
        }
    }

    pub fn apply(&mut self, op: &Op) -> Result<(), Invalid> {
        match *op {
            Op::Lit(b) => self.out.push(b),
            Op::Match { dist, len } => {
                if !(MIN_LEN..=MAX_LEN).contains(&len) || dist == 0 {
                    return Err(Invalid::BadLen { op_index: self.n_ops });
                }
                self.check(dist as u64)?;
                self.reps = [dist - 1, self.reps[0], self.reps[1], self.reps[2]];
                self.copy(dist as usize, len as usize);
            }
            Op::ShortRep => {
                let d = self.reps[0] as u64 + 1;
                self.check(d)?;
                self.copy(d as usize, 1);
            }
            Op::Rep { idx, len } => {
                if !(MIN_LEN..=MAX_LEN).contains(&len) || idx > 3 {
                    return Err(Invalid::BadLen { op_index: self.n_ops });
                }
                let idx = idx as usize;
                let d0 = self.reps[idx];
                let d = d0 as u64 + 1;
                // the decoder rotates before it copies; an invalid distance
                // aborts decoding, so order is unobservable
                self.check(d)?;
                for i in (0..idx).rev() {
                    self.reps[i + 1] = self.reps[i];
                }
                self.reps[0] = d0;
                self.copy(d as usize, len as usize);
            }
        }
        self.n_ops += 1;
        Ok(())
    }

    /// LZMA2 dictionary reset.
    pub fn reset_dict(&mut self) {
        self.base = self.out.len();
    }

    /// LZMA2 state reset (reps go back to 0).
    pub fn reset_state(&mut self) {
        self.reps = [0; 4];
    }

    /// LZMA2 uncompressed chunk.
    pub fn append_raw(&mut self, bytes: &[u8]) {
        self.out.extend_from_slice(bytes);
    }
}

/// Interpret a whole program with a fixed dictionary size.
pub fn interpret(ops: &[Op], dict: u64) -> Result<Vec<u8>, Invalid> {
    let mut it = Interp::new(dict);
    for op in ops {
        it.apply(op)?;
    }
    Ok(it.out)
}
