//! LZMA probability model and symbol-history automaton, written from the
//! LZMA SDK specification text (lzma-specification.txt). Shared by the
//! reference encoder and the reference decoder; shares nothing with lzma-rs.

use serde::{Deserialize, Serialize};

pub const PROB_INIT: u16 = 1024; // kBitModelTotal / 2
pub const NUM_STATES: usize = 12;
pub const NUM_POS_STATES_MAX: usize = 16;
pub const END_MARKER_DIST0: u32 = 0xFFFF_FFFF;

#[derive(Clone, Copy, Debug, PartialEq, Eq, Hash, Serialize, Deserialize)]
pub struct Props {
    pub lc: u32,
    pub lp: u32,
    pub pb: u32,
}

impl Props {
    pub fn new(lc: u32, lp: u32, pb: u32) -> Props {
        assert!(lc <= 8 && lp <= 4 && pb <= 4);
        Props { lc, lp, pb }
    }
    pub fn byte(&self) -> u8 {
        ((self.pb * 5 + self.lp) * 9 + self.lc) as u8
    }
    pub fn from_byte(b: u8) -> Option<Props> {
        if b >= 225 {
            return None;
        }
        let b = b as u32;
        Some(Props {
            lc: b % 9,
            lp: (b / 9) % 5,
            pb: b / 45,
        })
    }
    pub fn default_xz() -> Props {
        Props { lc: 3, lp: 0, pb: 2 }
    }
}

#[derive(Clone)]
pub struct LenModel {
    pub choice: u16,
    pub choice2: u16,
    pub low: [[u16; 8]; NUM_POS_STATES_MAX],
    pub mid: [[u16; 8]; NUM_POS_STATES_MAX],
    pub high: [u16; 256],
}

impl LenModel {
    pub fn new() -> Self {
        LenModel {
            choice: PROB_INIT,
            choice2: PROB_INIT,
            low: [[PROB_INIT; 8]; NUM_POS_STATES_MAX],
            mid: [[PROB_INIT; 8]; NUM_POS_STATES_MAX],
            high: [PROB_INIT; 256],
        }
    }
}

#[derive(Clone)]
pub struct Model {
    pub props: Props,
    pub lit: Vec<u16>, // 0x300 << (lc + lp)
    pub is_match: [[u16; NUM_POS_STATES_MAX]; NUM_STATES],
    pub is_rep: [u16; NUM_STATES],
    pub is_rep_g0: [u16; NUM_STATES],
    pub is_rep_g1: [u16; NUM_STATES],
    pub is_rep_g2: [u16; NUM_STATES],
    pub is_rep0_long: [[u16; NUM_POS_STATES_MAX]; NUM_STATES],
    pub pos_slot: [[u16; 64]; 4],
    /// "PosDecoders": 1 + kNumFullDistances(128) - kEndPosModelIndex(14) = 115
    pub pos_special: [u16; 115],
    pub align: [u16; 16],
    pub len: LenModel,
    pub rep_len: LenModel,
    pub state: usize,
    /// rep0..rep3, zero-based distances (distance - 1)
    pub reps: [u32; 4],
}

impl Model {
    pub fn new(props: Props) -> Self {
        Model {
            props,
            lit: vec![PROB_INIT; 0x300usize << (props.lc + props.lp)],
            is_match: [[PROB_INIT; NUM_POS_STATES_MAX]; NUM_STATES],
            is_rep: [PROB_INIT; NUM_STATES],
            is_rep_g0: [PROB_INIT; NUM_STATES],
            is_rep_g1: [PROB_INIT; NUM_STATES],
            is_rep_g2: [PROB_INIT; NUM_STATES],
            is_rep0_long: [[PROB_INIT; NUM_POS_STATES_MAX]; NUM_STATES],
            pos_slot: [[PROB_INIT; 64]; 4],
            pos_special: [PROB_INIT; 115],
            align: [PROB_INIT; 16],
            len: LenModel::new(),
            rep_len: LenModel::new(),
            state: 0,
            reps: [0; 4],
        }
    }

    /// LZMA2 "state reset" (optionally with new properties).
    pub fn reset(&mut self, props: Props) {
        *self = Model::new(props);
    }

    pub fn pos_state(&self, pos: u64) -> usize {
        (pos & ((1u64 << self.props.pb) - 1)) as usize
    }

    pub fn lit_base(&self, pos: u64, prev: u8) -> usize {
        let lp_mask = (1u64 << self.props.lp) - 1;
        let ctx = (((pos & lp_mask) as usize) << self.props.lc)
            + ((prev as usize) >> (8 - self.props.lc as usize));
        0x300 * ctx
    }

    pub fn state_after_lit(s: usize) -> usize {
        if s < 4 {
            0
        } else if s < 10 {
            s - 3
        } else {
            s - 6
        }
    }
    pub fn state_after_match(s: usize) -> usize {
        if s < 7 {
            7
        } else {
            10
        }
    }
    pub fn state_after_rep(s: usize) -> usize {
        if s < 7 {
            8
        } else {
            11
        }
    }
    pub fn state_after_shortrep(s: usize) -> usize {
        if s < 7 {
            9
        } else {
            11
        }
    }
}

/// Position slot of a zero-based distance.
pub fn pos_slot_of(dist0: u32) -> u32 {
    if dist0 < 4 {
        return dist0;
    }
    let n = 31 - dist0.leading_zeros(); // floor(log2)
    2 * n + ((dist0 >> (n - 1)) & 1)
}

#[cfg(test)]
mod t {
    use super::*;
    #[test]
    fn slots() {
        assert_eq!(pos_slot_of(0), 0);
        assert_eq!(pos_slot_of(3), 3);
        assert_eq!(pos_slot_of(4), 4);
        assert_eq!(pos_slot_of(5), 4);
        assert_eq!(pos_slot_of(6), 5);
        assert_eq!(pos_slot_of(7), 5);
        assert_eq!(pos_slot_of(8), 6);
        assert_eq!(pos_slot_of(127), 13);
        assert_eq!(pos_slot_of(128), 14);
        assert_eq!(pos_slot_of(0xFFFF_FFFF), 63);
        for b in 0..225u32 {
            assert_eq!(Props::from_byte(b as u8).unwrap().byte() as u32, b);
        }
    }
}
