//! .xz writer with every field exposed to single-field overrides (enclosing
//! CRC32s are computed over the bytes actually written, i.e. a mutated field
//! is "sealed" automatically), and an independent strict single-stream parser.

use super::crc::{crc32, crc64};
use super::lzma2;
use serde::{Deserialize, Serialize};

pub const HEADER_MAGIC: [u8; 6] = [0xFD, 0x37, 0x7A, 0x58, 0x5A, 0x00];
pub const FOOTER_MAGIC: [u8; 2] = [0x59, 0x5A];

pub fn check_size(id: u8) -> usize {
    match id {
        0 => 0,
        1..=3 => 4,
        4..=6 => 8,
        7..=9 => 16,
        10..=12 => 32,
        _ => 64,
    }
}

pub fn put_vli(out: &mut Vec<u8>, mut v: u64) {
    loop {
        let b = (v & 0x7F) as u8;
        v >>= 7;
        if v == 0 {
            out.push(b);
            break;
        }
        out.push(b | 0x80);
    }
}

pub fn vli_len(v: u64) -> usize {
    let mut t = Vec::new();
    put_vli(&mut t, v);
    t.len()
}

#[derive(Clone, Debug, PartialEq, Eq, Hash, Serialize, Deserialize)]
pub struct XzBlock {
    pub has_packed: bool,
    pub has_unpacked: bool,
    /// extra header padding in units of 4 bytes beyond the minimum
    pub extra_pad4: u8,
    /// LZMA2 dictionary-size property byte (0..=40)
    pub dict_prop: u8,
    /// complete LZMA2 stream (with end byte)
    pub payload: Vec<u8>,
    /// what the payload decodes to
    pub content: Vec<u8>,
}

#[derive(Clone, Debug, PartialEq, Eq, Hash, Serialize, Deserialize)]
pub struct XzSpec {
    /// check id: 0 none, 1 crc32, 4 crc64, (10 sha256 and others: placeholder bytes)
    pub check: u8,
    pub blocks: Vec<XzBlock>,
}

/// Single-field override. Everything not overridden is written consistently.
#[derive(Clone, Debug, PartialEq, Eq, Hash, Serialize, Deserialize)]
pub enum Mut {
    HeaderMagic { idx: usize, val: u8 },
    HeaderFlags([u8; 2]),
    HeaderCrc(u32),
    /// block header "size" byte replaced (layout unchanged)
    BlockHeaderSizeByte { b: usize, val: u8 },
    BlockFlagsReserved { b: usize, bits: u8 },
    /// number-of-filters field (low 2 bits of block flags) replaced (layout unchanged)
    BlockNumFilters { b: usize, val: u8 },
    PackedSize { b: usize, val: u64 },
    UnpackedSize { b: usize, val: u64 },
    /// replace the filter id (vli) of the single filter
    FilterId { b: usize, val: u64 },
    /// prepend an extra filter (id, props) before LZMA2
    ExtraFilter { b: usize, id: u64, props: Vec<u8> },
    /// filter properties size field replaced (props bytes adjusted to match)
    PropsSize { b: usize, val: u64 },
    /// header padding byte k set non-zero (requires padding present)
    HeaderPad { b: usize, k: usize, val: u8 },
    BlockHeaderCrc { b: usize, val: u32 },
    /// block padding byte k set non-zero (requires padding present)
    BlockPad { b: usize, k: usize, val: u8 },
    /// block check bytes xor-ed with mask at byte k
    BlockCheck { b: usize, k: usize, xor: u8 },
    IndexIndicator(u8),
    IndexCount(u64),
    IndexUnpadded { b: usize, val: u64 },
    IndexUnpacked { b: usize, val: u64 },
    IndexPad { k: usize, val: u8 },
    /// coherent rewrite: the index lists only the first `keep` records (count = keep)
    IndexTruncate { keep: usize },
    /// coherent rewrite: k junk bytes between the LZMA2 end byte and the block padding,
    /// declared compressed size (field forced present), padding and index all consistent
    /// with the enlarged size
    PackedJunk { b: usize, k: usize, byte: u8 },
    /// coherent rewrite: records i and j exchanged
    IndexSwap { i: usize, j: usize },
    /// coherent rewrite: one extra record appended (count = n + 1)
    IndexExtra { unpadded: u64, unpacked: u64 },
    IndexCrc(u32),
    FooterCrc(u32),
    BackwardSize(u32),
    FooterFlags([u8; 2]),
    FooterMagic { idx: usize, val: u8 },
    /// both header and footer flags replaced, check fields sized per spec table
    /// and filled with placeholder bytes (for unsupported check ids)
    BothFlags([u8; 2]),
    /// bytes appended after the footer
    Trailing(Vec<u8>),
}

#[derive(Clone, Debug, Default)]
pub struct XzLayout {
    /// (offset,len) of each block header, payload, padding, check
    pub blocks: Vec<BlockLayout>,
    pub index_off: usize,
    pub index_len: usize,
    pub index_pad: usize,
    pub footer_off: usize,
    /// named field boundaries, for targeted reader fragmentation
    pub boundaries: Vec<usize>,
}

#[derive(Clone, Debug, Default)]
pub struct BlockLayout {
    pub header_off: usize,
    pub header_len: usize,
    pub header_pad: usize,
    pub payload_off: usize,
    pub payload_len: usize,
    pub pad_len: usize,
    pub check_off: usize,
    pub check_len: usize,
}

#[derive(Clone, Debug)]
pub struct XzFile {
    pub bytes: Vec<u8>,
    pub layout: XzLayout,
    /// whether the requested mutation was applicable (e.g. padding existed)
    pub mut_applied: bool,
}

fn check_bytes(id: u8, data: &[u8]) -> Vec<u8> {
    match id {
        0 => vec![],
        1 => crc32(data).to_le_bytes().to_vec(),
        4 => crc64(data).to_le_bytes().to_vec(),
        // a well-formed SHA-256 file carries the real digest
        10 => super::crc::sha256(data).to_vec(),
        _ => {
            // placeholder (not a real digest): deterministic filler
            let n = check_size(id);
            let c = crc64(data).to_le_bytes();
            (0..n).map(|i| c[i % 8] ^ (i as u8)).collect()
        }
    }
}

pub fn write_xz(spec: &XzSpec, m: Option<&Mut>) -> XzFile {
    let mut out = Vec::new();
    let mut lay = XzLayout::default();
    let mut applied = m.is_none();
    let mut check_id = spec.check;
    let mut flags = [0u8, spec.check];
    if let Some(Mut::BothFlags(f)) = m {
        flags = *f;
        check_id = f[1] & 0x0F;
        applied = true;
    }
    // ---- stream header
    let mut magic = HEADER_MAGIC;
    if let Some(Mut::HeaderMagic { idx, val }) = m {
        magic[*idx % 6] = *val;
        applied = true;
    }
    out.extend_from_slice(&magic);
    let mut hflags = flags;
    if let Some(Mut::HeaderFlags(f)) = m {
        hflags = *f;
        applied = true;
    }
    out.extend_from_slice(&hflags);
    let mut hcrc = crc32(&hflags);
    if let Some(Mut::HeaderCrc(v)) = m {
        hcrc = *v;
        applied = true;
    }
    out.extend_from_slice(&hcrc.to_le_bytes());
    lay.boundaries.extend_from_slice(&[6, 8, 12]);

    // ---- blocks
    let mut records: Vec<(u64, u64)> = Vec::new();
    for (bi, blk) in spec.blocks.iter().enumerate() {
        let mut bl = BlockLayout::default();
        bl.header_off = out.len();
        // header body (without size byte and crc)
        let mut body = Vec::new();
        let mut bflags = 0u8;
        let mut junk: Vec<u8> = Vec::new();
        let mut has_packed = blk.has_packed;
        if let Some(Mut::PackedJunk { b, k, byte }) = m {
            if *b == bi && *k > 0 {
                junk = vec![*byte; *k];
                has_packed = true;
                applied = true;
            }
        }
        let payload_total = blk.payload.len() + junk.len();
        if has_packed {
            bflags |= 0x40;
        }
        if blk.has_unpacked {
            bflags |= 0x80;
        }
        let mut filters: Vec<(u64, Vec<u8>)> = vec![(0x21, vec![blk.dict_prop])];
        match m {
            Some(Mut::FilterId { b, val }) if *b == bi => {
                filters[0].0 = *val;
                applied = true;
            }
            Some(Mut::ExtraFilter { b, id, props }) if *b == bi => {
                filters.insert(0, (*id, props.clone()));
                applied = true;
            }
            _ => {}
        }
        bflags |= (filters.len() - 1) as u8;
        match m {
            Some(Mut::BlockFlagsReserved { b, bits }) if *b == bi => {
                bflags |= *bits & 0x3C;
                applied = true;
            }
            Some(Mut::BlockNumFilters { b, val }) if *b == bi => {
                bflags = (bflags & !3) | (*val & 3);
                applied = true;
            }
            _ => {}
        }
        body.push(bflags);
        if has_packed {
            let mut v = payload_total as u64;
            if let Some(Mut::PackedSize { b, val }) = m {
                if *b == bi {
                    v = *val;
                    applied = true;
                }
            }
            put_vli(&mut body, v);
        }
        if blk.has_unpacked {
            let mut v = blk.content.len() as u64;
            if let Some(Mut::UnpackedSize { b, val }) = m {
                if *b == bi {
                    v = *val;
                    applied = true;
                }
            }
            put_vli(&mut body, v);
        }
        for (fi, (id, props)) in filters.iter().enumerate() {
            put_vli(&mut body, *id);
            let mut psz = props.len() as u64;
            let mut pbytes = props.clone();
            if let Some(Mut::PropsSize { b, val }) = m {
                if *b == bi && fi == filters.len() - 1 {
                    psz = *val;
                    pbytes.resize((*val).min(900) as usize, blk.dict_prop);
                    applied = true;
                }
            }
            put_vli(&mut body, psz);
            body.extend_from_slice(&pbytes);
        }
        // total header = 1 + body + pad + 4, multiple of 4, <= 1024
        let min_total = (1 + body.len() + 4 + 3) / 4 * 4;
        let total = (min_total + 4 * blk.extra_pad4 as usize).min(1024).max(min_total);
        let pad = total - (1 + body.len() + 4);
        bl.header_pad = pad;
        let mut padding = vec![0u8; pad];
        if let Some(Mut::HeaderPad { b, k, val }) = m {
            if *b == bi && pad > 0 {
                padding[*k % pad] = *val;
                applied = true;
            }
        }
        let mut size_byte = (total / 4 - 1) as u8;
        if let Some(Mut::BlockHeaderSizeByte { b, val }) = m {
            if *b == bi {
                size_byte = *val;
                applied = true;
            }
        }
        let mut hdr = vec![size_byte];
        hdr.extend_from_slice(&body);
        hdr.extend_from_slice(&padding);
        let mut c = crc32(&hdr);
        if let Some(Mut::BlockHeaderCrc { b, val }) = m {
            if *b == bi {
                c = *val;
                applied = true;
            }
        }
        lay.boundaries.push(out.len() + 1);
        lay.boundaries.push(out.len() + 2);
        out.extend_from_slice(&hdr);
        lay.boundaries.push(out.len() - pad);
        lay.boundaries.push(out.len());
        out.extend_from_slice(&c.to_le_bytes());
        bl.header_len = total;
        lay.boundaries.push(out.len());
        // payload
        bl.payload_off = out.len();
        bl.payload_len = payload_total;
        out.extend_from_slice(&blk.payload);
        out.extend_from_slice(&junk);
        lay.boundaries.push(out.len());
        let unpadded_wo_check = total + payload_total;
        let bpad = (4 - unpadded_wo_check % 4) % 4;
        bl.pad_len = bpad;
        let mut bpadding = vec![0u8; bpad];
        if let Some(Mut::BlockPad { b, k, val }) = m {
            if *b == bi && bpad > 0 {
                bpadding[*k % bpad] = *val;
                applied = true;
            }
        }
        out.extend_from_slice(&bpadding);
        lay.boundaries.push(out.len());
        let mut chk = check_bytes(check_id, &blk.content);
        if let Some(Mut::BlockCheck { b, k, xor }) = m {
            if *b == bi && !chk.is_empty() && *xor != 0 {
                let n = chk.len();
                chk[*k % n] ^= *xor;
                applied = true;
            }
        }
        bl.check_off = out.len();
        bl.check_len = chk.len();
        out.extend_from_slice(&chk);
        lay.boundaries.push(out.len());
        records.push((
            (unpadded_wo_check + chk.len()) as u64,
            blk.content.len() as u64,
        ));
        lay.blocks.push(bl);
    }

    // ---- index
    lay.index_off = out.len();
    let mut idx = Vec::new();
    let mut indicator = 0u8;
    if let Some(Mut::IndexIndicator(v)) = m {
        indicator = *v;
        applied = true;
    }
    idx.push(indicator);
    let mut count = records.len() as u64;
    if let Some(Mut::IndexCount(v)) = m {
        count = *v;
        applied = true;
    }
    let mut records = records;
    match m {
        Some(Mut::IndexTruncate { keep }) if *keep < records.len() => {
            records.truncate(*keep);
            count = *keep as u64;
            applied = true;
        }
        Some(Mut::IndexSwap { i, j }) if *i < records.len() && *j < records.len() && records[*i] != records[*j] => {
            records.swap(*i, *j);
            applied = true;
        }
        Some(Mut::IndexExtra { unpadded, unpacked }) => {
            records.push((*unpadded, *unpacked));
            count = records.len() as u64;
            applied = true;
        }
        _ => {}
    }
    put_vli(&mut idx, count);
    for (bi, (mut unpadded, mut unpacked)) in records.iter().copied().enumerate() {
        match m {
            Some(Mut::IndexUnpadded { b, val }) if *b == bi => {
                unpadded = *val;
                applied = true;
            }
            Some(Mut::IndexUnpacked { b, val }) if *b == bi => {
                unpacked = *val;
                applied = true;
            }
            _ => {}
        }
        put_vli(&mut idx, unpadded);
        put_vli(&mut idx, unpacked);
    }
    let ipad = (4 - idx.len() % 4) % 4;
    lay.index_pad = ipad;
    let mut ipadding = vec![0u8; ipad];
    if let Some(Mut::IndexPad { k, val }) = m {
        if ipad > 0 {
            ipadding[*k % ipad] = *val;
            applied = true;
        }
    }
    idx.extend_from_slice(&ipadding);
    let mut icrc = crc32(&idx);
    if let Some(Mut::IndexCrc(v)) = m {
        icrc = *v;
        applied = true;
    }
    lay.boundaries.push(out.len() + 1);
    lay.boundaries.push(out.len() + idx.len() - ipad);
    lay.boundaries.push(out.len() + idx.len());
    out.extend_from_slice(&idx);
    out.extend_from_slice(&icrc.to_le_bytes());
    lay.index_len = idx.len() + 4;

    // ---- footer
    lay.footer_off = out.len();
    let mut backward = (lay.index_len / 4 - 1) as u32;
    if let Some(Mut::BackwardSize(v)) = m {
        backward = *v;
        applied = true;
    }
    let mut fflags = flags;
    if let Some(Mut::FooterFlags(f)) = m {
        fflags = *f;
        applied = true;
    }
    let mut fbody = Vec::new();
    fbody.extend_from_slice(&backward.to_le_bytes());
    fbody.extend_from_slice(&fflags);
    let mut fcrc = crc32(&fbody);
    if let Some(Mut::FooterCrc(v)) = m {
        fcrc = *v;
        applied = true;
    }
    out.extend_from_slice(&fcrc.to_le_bytes());
    out.extend_from_slice(&fbody);
    let mut fmagic = FOOTER_MAGIC;
    if let Some(Mut::FooterMagic { idx, val }) = m {
        fmagic[*idx % 2] = *val;
        applied = true;
    }
    lay.boundaries.push(out.len() - 6 + 4);
    lay.boundaries.push(out.len());
    out.extend_from_slice(&fmagic);
    lay.boundaries.push(out.len() - 1);
    if let Some(Mut::Trailing(t)) = m {
        out.extend_from_slice(t);
        applied = true;
    }
    lay.boundaries.sort_unstable();
    lay.boundaries.dedup();
    XzFile {
        bytes: out,
        layout: lay,
        mut_applied: applied,
    }
}

// ---------------------------------------------------------------------------
// strict parser

#[derive(Clone, Debug, PartialEq, Eq)]
pub struct XzErr(pub String);

fn e<T>(s: impl Into<String>) -> Result<T, XzErr> {
    Err(XzErr(s.into()))
}

fn get_vli(inp: &[u8], pos: &mut usize, limit: usize) -> Result<u64, XzErr> {
    let mut v = 0u64;
    for i in 0..9 {
        if *pos >= limit {
            return e("vli truncated");
        }
        let b = inp[*pos];
        *pos += 1;
        v |= ((b & 0x7F) as u64) << (7 * i);
        if b & 0x80 == 0 {
            if b == 0 && i > 0 {
                return e("vli non-minimal");
            }
            return Ok(v);
        }
    }
    e("vli too long")
}

#[derive(Clone, Debug)]
pub struct StrictOk {
    pub out: Vec<u8>,
    pub n_blocks: usize,
    pub check: u8,
}

/// Strict single-stream .xz parser restricted to the subset {None,CRC32,CRC64}
/// x {one LZMA2 filter}. Everything else is an error.
pub fn parse_strict(inp: &[u8], out_cap: usize) -> Result<StrictOk, XzErr> {
    if inp.len() < 12 || inp[..6] != HEADER_MAGIC {
        return e("header magic");
    }
    if inp[6] != 0 || inp[7] & 0xF0 != 0 {
        return e("header flags reserved");
    }
    let check = inp[7];
    if !matches!(check, 0 | 1 | 4) {
        return e("unsupported check");
    }
    if crc32(&inp[6..8]) != u32::from_le_bytes(inp[8..12].try_into().unwrap()) {
        return e("header crc");
    }
    let mut pos = 12usize;
    let mut out = Vec::new();
    let mut records: Vec<(u64, u64)> = Vec::new();
    loop {
        if pos >= inp.len() {
            return e("truncated before index");
        }
        let sb = inp[pos];
        if sb == 0 {
            break;
        }
        let hsize = (sb as usize + 1) * 4;
        if pos + hsize > inp.len() {
            return e("block header truncated");
        }
        let hdr = &inp[pos..pos + hsize];
        if crc32(&hdr[..hsize - 4]) != u32::from_le_bytes(hdr[hsize - 4..].try_into().unwrap()) {
            return e("block header crc");
        }
        let lim = hsize - 4;
        let bflags = hdr[1];
        if bflags & 0x3C != 0 {
            return e("block flags reserved");
        }
        if bflags & 3 != 0 {
            return e("more than one filter");
        }
        let mut p = 2usize;
        let packed = if bflags & 0x40 != 0 {
            Some(get_vli(hdr, &mut p, lim)?)
        } else {
            None
        };
        let unpacked = if bflags & 0x80 != 0 {
            Some(get_vli(hdr, &mut p, lim)?)
        } else {
            None
        };
        let fid = get_vli(hdr, &mut p, lim)?;
        if fid != 0x21 {
            return e("filter id");
        }
        let psz = get_vli(hdr, &mut p, lim)?;
        if psz != 1 || p + 1 > lim {
            return e("filter props size");
        }
        if hdr[p] > 40 {
            return e("lzma2 dict prop");
        }
        p += 1;
        if hdr[p..lim].iter().any(|&b| b != 0) {
            return e("header padding");
        }
        let data_off = pos + hsize;
        let r = lzma2::decode_lzma2(&inp[data_off..], true, true, out_cap)
            .map_err(|x| XzErr(format!("lzma2: {:?}", x)))?;
        if let Some(ps) = packed {
            if ps != r.consumed as u64 {
                return e("packed size mismatch");
            }
        }
        if let Some(us) = unpacked {
            if us != r.out.len() as u64 {
                return e("unpacked size mismatch");
            }
        }
        let mut q = data_off + r.consumed;
        let bpad = (4 - (hsize + r.consumed) % 4) % 4;
        if q + bpad > inp.len() || inp[q..q + bpad].iter().any(|&b| b != 0) {
            return e("block padding");
        }
        q += bpad;
        let cl = check_size(check);
        if q + cl > inp.len() {
            return e("check truncated");
        }
        let ok = match check {
            0 => true,
            1 => crc32(&r.out).to_le_bytes() == inp[q..q + 4],
            4 => crc64(&r.out).to_le_bytes() == inp[q..q + 8],
            _ => unreachable!(),
        };
        if !ok {
            return e("block check");
        }
        q += cl;
        records.push(((hsize + r.consumed + cl) as u64, r.out.len() as u64));
        out.extend_from_slice(&r.out);
        if out.len() > out_cap {
            return e("output cap");
        }
        pos = q;
    }
    // index
    let istart = pos;
    pos += 1;
    let n = get_vli(inp, &mut pos, inp.len())?;
    if n != records.len() as u64 {
        return e("index count");
    }
    for (u, v) in &records {
        if get_vli(inp, &mut pos, inp.len())? != *u {
            return e("index unpadded");
        }
        if get_vli(inp, &mut pos, inp.len())? != *v {
            return e("index unpacked");
        }
    }
    let ipad = (4 - (pos - istart) % 4) % 4;
    if pos + ipad + 4 > inp.len() || inp[pos..pos + ipad].iter().any(|&b| b != 0) {
        return e("index padding");
    }
    pos += ipad;
    if crc32(&inp[istart..pos]) != u32::from_le_bytes(inp[pos..pos + 4].try_into().unwrap()) {
        return e("index crc");
    }
    pos += 4;
    let isize = pos - istart;
    if pos + 12 != inp.len() {
        return e("footer length / trailing data");
    }
    let f = &inp[pos..];
    if crc32(&f[4..10]) != u32::from_le_bytes(f[..4].try_into().unwrap()) {
        return e("footer crc");
    }
    let bw = u32::from_le_bytes(f[4..8].try_into().unwrap()) as u64;
    if (bw + 1) * 4 != isize as u64 {
        return e("backward size");
    }
    if f[8..10] != inp[6..8] {
        return e("footer flags");
    }
    if f[10..12] != FOOTER_MAGIC {
        return e("footer magic");
    }
    Ok(StrictOk {
        out,
        n_blocks: records.len(),
        check,
    })
}
