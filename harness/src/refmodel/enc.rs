//! Reference LZMA *symbol-program* encoder: range coder + bit-level coding of
//! every symbol kind for every lc/lp/pb. Written from the LZMA SDK
//! specification; independent of lzma-rs' (literal-only) encoder.

use super::model::*;
use super::program::Op;

const TOP: u32 = 1 << 24;

#[derive(Clone)]
pub struct RcEnc {
    low: u64,
    range: u32,
    cache: u8,
    cache_size: u64,
    pub out: Vec<u8>,
    /// number of normalisation shifts so far (decoder consumes 5 + norms)
    pub norms: u64,
}

impl RcEnc {
    pub fn new() -> Self {
        RcEnc {
            low: 0,
            range: 0xFFFF_FFFF,
            cache: 0,
            cache_size: 1,
            out: Vec::new(),
            norms: 0,
        }
    }

    fn shift_low(&mut self) {
        if (self.low as u32) < 0xFF00_0000 || (self.low >> 32) != 0 {
            let carry = (self.low >> 32) as u8;
            let mut temp = self.cache;
            loop {
                self.out.push(temp.wrapping_add(carry));
                temp = 0xFF;
                self.cache_size -= 1;
                if self.cache_size == 0 {
                    break;
                }
            }
            self.cache = ((self.low >> 24) & 0xFF) as u8;
        }
        self.cache_size += 1;
        self.low = (self.low & 0x00FF_FFFF) << 8;
    }

    fn normalize(&mut self) {
        while self.range < TOP {
            self.range <<= 8;
            self.shift_low();
            self.norms += 1;
        }
    }

    pub fn bit(&mut self, prob: &mut u16, bit: u32) {
        let bound = (self.range >> 11) * (*prob as u32);
        if bit == 0 {
            self.range = bound;
            *prob += (2048 - *prob) >> 5;
        } else {
            self.low += bound as u64;
            self.range -= bound;
            *prob -= *prob >> 5;
        }
        self.normalize();
    }

    pub fn direct(&mut self, value: u32, nbits: u32) {
        for i in (0..nbits).rev() {
            self.range >>= 1;
            if (value >> i) & 1 == 1 {
                self.low += self.range as u64;
            }
            self.normalize();
        }
    }

    /// Bytes a decoder that normalises eagerly has consumed so far.
    pub fn consumed(&self) -> u64 {
        5 + self.norms
    }

    /// Flush; the result has exactly `5 + norms` bytes.
    pub fn finish(mut self) -> Vec<u8> {
        for _ in 0..5 {
            self.shift_low();
        }
        debug_assert_eq!(self.out.len() as u64, 5 + self.norms);
        self.out
    }

    /// Length the finished stream will have.
    pub fn final_len(&self) -> u64 {
        5 + self.norms
    }
}

fn bittree(rc: &mut RcEnc, probs: &mut [u16], nbits: u32, value: u32) {
    let mut m = 1usize;
    for i in (0..nbits).rev() {
        let b = (value >> i) & 1;
        rc.bit(&mut probs[m], b);
        m = (m << 1) | b as usize;
    }
}

fn bittree_rev(rc: &mut RcEnc, probs: &mut [u16], offset: usize, nbits: u32, value: u32) {
    let mut m = 1usize;
    for i in 0..nbits {
        let b = (value >> i) & 1;
        rc.bit(&mut probs[offset + m], b);
        m = (m << 1) | b as usize;
    }
}

fn enc_len(rc: &mut RcEnc, lm: &mut LenModel, len: u32, pos_state: usize) {
    let l = len - 2;
    if l < 8 {
        rc.bit(&mut lm.choice, 0);
        bittree(rc, &mut lm.low[pos_state], 3, l);
    } else if l < 16 {
        rc.bit(&mut lm.choice, 1);
        rc.bit(&mut lm.choice2, 0);
        bittree(rc, &mut lm.mid[pos_state], 3, l - 8);
    } else {
        rc.bit(&mut lm.choice, 1);
        rc.bit(&mut lm.choice2, 1);
        bittree(rc, &mut lm.high, 8, l - 16);
    }
}

fn enc_dist(rc: &mut RcEnc, m: &mut Model, dist0: u32, len: u32) {
    let len_state = ((len - 2).min(3)) as usize;
    let slot = pos_slot_of(dist0);
    bittree(rc, &mut m.pos_slot[len_state], 6, slot);
    if slot >= 4 {
        let fb = (slot >> 1) - 1;
        let base = (2 | (slot & 1)) << fb;
        let red = dist0 - base;
        if slot < 14 {
            bittree_rev(rc, &mut m.pos_special, (base - slot) as usize, fb, red);
        } else {
            rc.direct(red >> 4, fb - 4);
            bittree_rev(rc, &mut m.align, 0, 4, red & 15);
        }
    }
}

/// Encoder for a stream of symbols. Keeps its own (lenient) history so that it
/// can also encode *invalid* programs: a copy from outside the history reads 0.
#[derive(Clone)]
pub struct SymEncoder {
    pub model: Model,
    pub hist: Vec<u8>,
    /// index in `hist` where the current dictionary epoch starts
    pub base: usize,
    /// position to use instead of hist.len() - base (what-if clones only)
    pub pos_override: Option<u64>,
}

impl SymEncoder {
    pub fn new(props: Props) -> Self {
        SymEncoder {
            model: Model::new(props),
            hist: Vec::new(),
            base: 0,
            pos_override: None,
        }
    }

    pub fn pos(&self) -> u64 {
        match self.pos_override {
            Some(p) => p,
            None => (self.hist.len() - self.base) as u64,
        }
    }

    fn prev_byte(&self) -> u8 {
        if self.hist.len() > self.base {
            self.hist[self.hist.len() - 1]
        } else {
            0
        }
    }

    fn byte_at(&self, dist: u64) -> u8 {
        let avail = (self.hist.len() - self.base) as u64;
        if dist >= 1 && dist <= avail {
            self.hist[self.hist.len() - dist as usize]
        } else {
            0
        }
    }

    fn copy(&mut self, dist: u64, len: u32) {
        for _ in 0..len {
            let b = self.byte_at(dist);
            self.hist.push(b);
        }
    }

    pub fn reset_dict(&mut self) {
        self.base = self.hist.len();
    }

    /// Clone for a what-if encoding of ONE literal: model plus the last few
    /// history bytes only (a literal needs the previous byte and the rep0 byte;
    /// callers use it right after literals, i.e. in a state < 7).
    pub fn clone_model_only(&self) -> SymEncoder {
        let keep = self.hist.len().min(1);
        SymEncoder {
            model: self.model.clone(),
            hist: self.hist[self.hist.len() - keep..].to_vec(),
            base: 0,
            pos_override: None,
        }
        .with_pos(self.pos())
    }

    fn with_pos(mut self, pos: u64) -> SymEncoder {
        self.pos_override = Some(pos);
        self
    }

    /// Take over the model of a what-if clone after committing `op` (a literal).
    pub fn adopt_model(&mut self, other: SymEncoder, op: &Op) {
        self.model = other.model;
        if let Op::Lit(b) = op {
            self.hist.push(*b);
        }
    }

    pub fn append_raw(&mut self, b: &[u8]) {
        self.hist.extend_from_slice(b);
    }

    pub fn encode(&mut self, rc: &mut RcEnc, op: &Op) {
        let pos = self.pos();
        let ps = self.model.pos_state(pos);
        let st = self.model.state;
        match *op {
            Op::Lit(byte) => {
                rc.bit(&mut self.model.is_match[st][ps], 0);
                let prev = self.prev_byte();
                let base = self.model.lit_base(pos, prev);
                let match_byte = self.byte_at(self.model.reps[0] as u64 + 1) as usize;
                let probs = &mut self.model.lit[base..base + 0x300];
                let mut symbol = 1usize;
                let mut i = 8;
                if st >= 7 {
                    let mut mb = match_byte;
                    while symbol < 0x100 {
                        i -= 1;
                        let match_bit = (mb >> 7) & 1;
                        mb = (mb << 1) & 0xFF;
                        let bit = ((byte >> i) & 1) as usize;
                        rc.bit(&mut probs[((1 + match_bit) << 8) + symbol], bit as u32);
                        symbol = (symbol << 1) | bit;
                        if match_bit != bit {
                            break;
                        }
                    }
                }
                while symbol < 0x100 {
                    i -= 1;
                    let bit = ((byte >> i) & 1) as usize;
                    rc.bit(&mut probs[symbol], bit as u32);
                    symbol = (symbol << 1) | bit;
                }
                self.hist.push(byte);
                self.model.state = Model::state_after_lit(st);
            }
            Op::Match { dist, len } => {
                rc.bit(&mut self.model.is_match[st][ps], 1);
                rc.bit(&mut self.model.is_rep[st], 0);
                enc_len(rc, &mut self.model.len, len, ps);
                enc_dist(rc, &mut self.model, dist - 1, len);
                let r = self.model.reps;
                self.model.reps = [dist - 1, r[0], r[1], r[2]];
                self.model.state = Model::state_after_match(st);
                self.copy(dist as u64, len);
            }
            Op::ShortRep => {
                rc.bit(&mut self.model.is_match[st][ps], 1);
                rc.bit(&mut self.model.is_rep[st], 1);
                rc.bit(&mut self.model.is_rep_g0[st], 0);
                rc.bit(&mut self.model.is_rep0_long[st][ps], 0);
                self.model.state = Model::state_after_shortrep(st);
                let d = self.model.reps[0] as u64 + 1;
                self.copy(d, 1);
            }
            Op::Rep { idx, len } => {
                rc.bit(&mut self.model.is_match[st][ps], 1);
                rc.bit(&mut self.model.is_rep[st], 1);
                if idx == 0 {
                    rc.bit(&mut self.model.is_rep_g0[st], 0);
                    rc.bit(&mut self.model.is_rep0_long[st][ps], 1);
                } else {
                    rc.bit(&mut self.model.is_rep_g0[st], 1);
                    if idx == 1 {
                        rc.bit(&mut self.model.is_rep_g1[st], 0);
                    } else {
                        rc.bit(&mut self.model.is_rep_g1[st], 1);
                        rc.bit(&mut self.model.is_rep_g2[st], (idx == 3) as u32);
                    }
                    let idx = idx as usize;
                    let d = self.model.reps[idx];
                    for i in (0..idx).rev() {
                        self.model.reps[i + 1] = self.model.reps[i];
                    }
                    self.model.reps[0] = d;
                }
                enc_len(rc, &mut self.model.rep_len, len, ps);
                self.model.state = Model::state_after_rep(st);
                let d = self.model.reps[0] as u64 + 1;
                self.copy(d, len);
            }
        }
    }

    /// End-of-stream marker: a new match with zero-based distance 0xFFFFFFFF.
    /// `len` is the (irrelevant) match length, conventionally 2.
    pub fn encode_marker(&mut self, rc: &mut RcEnc, len: u32) {
        let pos = self.pos();
        let ps = self.model.pos_state(pos);
        let st = self.model.state;
        rc.bit(&mut self.model.is_match[st][ps], 1);
        rc.bit(&mut self.model.is_rep[st], 0);
        enc_len(rc, &mut self.model.len, len, ps);
        enc_dist(rc, &mut self.model, END_MARKER_DIST0, len);
        let r = self.model.reps;
        self.model.reps = [END_MARKER_DIST0, r[0], r[1], r[2]];
        self.model.state = Model::state_after_match(st);
    }
}

/// (bytes a lock-step decoder has consumed, bytes produced) after each symbol.
#[derive(Clone, Copy, Debug, PartialEq, Eq)]
pub struct SymInfo {
    pub consumed: u64,
    pub produced: u64,
}

#[derive(Clone, Debug)]
pub struct EncodedLzma {
    /// range-coder payload (no header): exactly 5 + N bytes
    pub payload: Vec<u8>,
    /// the encoder's own history (== interpreter output for valid programs)
    pub hist: Vec<u8>,
    /// per-symbol table (marker, if any, is the last entry)
    pub table: Vec<SymInfo>,
    pub marker: bool,
}

/// Encode a complete LZMA1 payload.
pub fn encode_lzma(props: Props, ops: &[Op], marker_len: Option<u32>) -> EncodedLzma {
    let mut enc = SymEncoder::new(props);
    let mut rc = RcEnc::new();
    let mut table = Vec::with_capacity(ops.len() + 1);
    for op in ops {
        enc.encode(&mut rc, op);
        table.push(SymInfo {
            consumed: rc.consumed(),
            produced: enc.hist.len() as u64,
        });
    }
    if let Some(l) = marker_len {
        enc.encode_marker(&mut rc, l);
        table.push(SymInfo {
            consumed: rc.consumed(),
            produced: enc.hist.len() as u64,
        });
    }
    EncodedLzma {
        payload: rc.finish(),
        hist: enc.hist,
        table,
        marker: marker_len.is_some(),
    }
}

/// 13-byte .lzma header.
pub fn lzma_header(props: Props, dict: u32, size: Option<u64>) -> Vec<u8> {
    let mut h = Vec::with_capacity(13);
    h.push(props.byte());
    h.extend_from_slice(&dict.to_le_bytes());
    h.extend_from_slice(&size.unwrap_or(u64::MAX).to_le_bytes());
    h
}

/// 5-byte header (props + dict) for `UseProvided`.
pub fn lzma_header5(props: Props, dict: u32) -> Vec<u8> {
    let mut h = Vec::with_capacity(5);
    h.push(props.byte());
    h.extend_from_slice(&dict.to_le_bytes());
    h
}
