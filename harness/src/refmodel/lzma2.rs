//! LZMA2 chunk-sequence writer and strict reference LZMA2 decoder.

use super::dec::{DecErr, RefDecoder};
use super::enc::{RcEnc, SymEncoder, SymInfo};
use super::model::Props;
use super::program::Op;
use serde::{Deserialize, Serialize};

pub const MAX_UNPACKED: usize = 1 << 21;
pub const MAX_PACKED: usize = 1 << 16;

#[derive(Clone, Copy, Debug, PartialEq, Eq, Hash, Serialize, Deserialize)]
pub enum Reset {
    None = 0,
    State = 1,
    StateProps = 2,
    All = 3,
}

#[derive(Clone, Debug, PartialEq, Eq, Hash, Serialize, Deserialize)]
pub enum Chunk {
    Raw {
        reset_dict: bool,
        #[serde(with = "crate::gen::bytes::hexser")]
        data: Vec<u8>,
    },
    Lzma {
        reset: Reset,
        /// used when reset is StateProps or All
        props: Props,
        ops: Vec<Op>,
    },
}

#[derive(Clone, Debug)]
pub struct ChunkLayout {
    /// offset of the control byte in the stream
    pub offset: usize,
    /// length of the chunk header (control + sizes + optional props)
    pub header_len: usize,
    /// payload length (packed size, or raw data length)
    pub payload_len: usize,
    pub unpacked: usize,
    pub compressed: bool,
    pub has_props: bool,
    /// for compressed chunks: per-symbol (consumed within payload, produced total)
    pub table: Vec<SymInfo>,
    /// bytes produced (total) before this chunk
    pub produced_before: usize,
}

#[derive(Clone, Debug)]
pub struct EncodedLzma2 {
    /// full stream including the 0x00 end byte
    pub bytes: Vec<u8>,
    pub output: Vec<u8>,
    pub layout: Vec<ChunkLayout>,
}

/// Serialise a chunk sequence. Returns Err(text) when a chunk violates a
/// format limit (generator bug, not a property violation).
pub fn write_lzma2(chunks: &[Chunk], want_tables: bool) -> Result<EncodedLzma2, String> {
    write_lzma2_tweaked(chunks, want_tables, None)
}

/// Like `write_lzma2`; `marker_chunk = Some((i, k))` appends an LZMA end marker
/// to compressed chunk i's payload and declares k more uncompressed bytes than
/// the chunk produces (a malformed stream: the chunk yields fewer bytes than declared).
pub fn write_lzma2_tweaked(
    chunks: &[Chunk],
    want_tables: bool,
    marker_chunk: Option<(usize, u32)>,
) -> Result<EncodedLzma2, String> {
    write_lzma2_full(chunks, want_tables, marker_chunk, true)
}

/// Serialise without enforcing the sequencing rules (first chunk resets the
/// dictionary; new properties after a dictionary reset). lzma-rs accepts such
/// sequences, liblzma does not.
pub fn write_lzma2_lenient(chunks: &[Chunk]) -> Result<EncodedLzma2, String> {
    write_lzma2_full(chunks, false, None, false)
}

fn write_lzma2_full(
    chunks: &[Chunk],
    want_tables: bool,
    marker_chunk: Option<(usize, u32)>,
    strict: bool,
) -> Result<EncodedLzma2, String> {
    let mut enc = SymEncoder::new(Props::new(0, 0, 0));
    let mut bytes = Vec::new();
    let mut layout = Vec::new();
    let mut need_props = true;
    let mut need_dict_reset = true;
    for (ci, ch) in chunks.iter().enumerate() {
        let offset = bytes.len();
        let before = enc.hist.len();
        match ch {
            Chunk::Raw { reset_dict, data } => {
                if data.is_empty() || data.len() > 65536 {
                    return Err(format!("chunk {}: raw size {}", ci, data.len()));
                }
                if strict && need_dict_reset && !reset_dict {
                    return Err(format!("chunk {}: dictionary reset required", ci));
                }
                if *reset_dict {
                    enc.reset_dict();
                    need_props = true;
                }
                need_dict_reset = false;
                bytes.push(if *reset_dict { 1 } else { 2 });
                bytes.extend_from_slice(&((data.len() - 1) as u16).to_be_bytes());
                bytes.extend_from_slice(data);
                enc.append_raw(data);
                layout.push(ChunkLayout {
                    offset,
                    header_len: 3,
                    payload_len: data.len(),
                    unpacked: data.len(),
                    compressed: false,
                    has_props: false,
                    table: Vec::new(),
                    produced_before: before,
                });
            }
            Chunk::Lzma { reset, props, ops } => {
                if strict && need_dict_reset && *reset != Reset::All {
                    return Err(format!("chunk {}: dictionary reset required", ci));
                }
                if strict && need_props && (*reset as u8) < 2 {
                    return Err(format!("chunk {}: new properties required", ci));
                }
                if (*reset as u8) >= 2 && props.lc + props.lp > 4 {
                    return Err(format!("chunk {}: lc+lp>4", ci));
                }
                if *reset == Reset::All {
                    enc.reset_dict();
                }
                match reset {
                    Reset::None => {}
                    Reset::State => {
                        let p = enc.model.props;
                        enc.model.reset(p)
                    }
                    Reset::StateProps | Reset::All => enc.model.reset(*props),
                }
                need_dict_reset = false;
                need_props = false;
                let mut rc = RcEnc::new();
                let mut table = Vec::new();
                for op in ops {
                    enc.encode(&mut rc, op);
                    if want_tables {
                        table.push(SymInfo {
                            consumed: rc.consumed(),
                            produced: enc.hist.len() as u64,
                        });
                    }
                }
                let mut extra_unpacked = 0usize;
                if let Some((mi, k)) = marker_chunk {
                    if mi == ci {
                        let mut probe = enc.clone();
                        probe.encode_marker(&mut rc, 2);
                        extra_unpacked = k as usize;
                    }
                }
                let payload = rc.finish();
                let unpacked = enc.hist.len() - before + extra_unpacked;
                if unpacked == 0 || unpacked > MAX_UNPACKED {
                    return Err(format!("chunk {}: unpacked {}", ci, unpacked));
                }
                if payload.len() > MAX_PACKED {
                    return Err(format!("chunk {}: packed {}", ci, payload.len()));
                }
                let has_props = (*reset as u8) >= 2;
                let control = 0x80 | ((*reset as u8) << 5) | (((unpacked - 1) >> 16) as u8);
                bytes.push(control);
                bytes.extend_from_slice(&(((unpacked - 1) & 0xFFFF) as u16).to_be_bytes());
                bytes.extend_from_slice(&((payload.len() - 1) as u16).to_be_bytes());
                if has_props {
                    bytes.push(props.byte());
                }
                bytes.extend_from_slice(&payload);
                layout.push(ChunkLayout {
                    offset,
                    header_len: 5 + has_props as usize,
                    payload_len: payload.len(),
                    unpacked,
                    compressed: true,
                    has_props,
                    table,
                    produced_before: before,
                });
            }
        }
    }
    bytes.push(0);
    Ok(EncodedLzma2 {
        bytes,
        output: enc.hist,
        layout,
    })
}

#[derive(Clone, Debug, PartialEq, Eq)]
pub enum L2Err {
    Truncated,
    BadControl(u8),
    BadProps(u8),
    /// sequencing rule (first chunk must reset dictionary, props needed)
    Sequence,
    Lzma(DecErr),
    /// compressed payload did not use exactly the declared packed size
    PackedSlack { used: usize, declared: usize },
    OutputCap,
}

#[derive(Clone, Debug)]
pub struct L2Ok {
    pub out: Vec<u8>,
    /// bytes consumed including the end byte
    pub consumed: usize,
}

/// Reference LZMA2 decoder. `strict_sequence`: enforce liblzma's sequencing
/// rules (which lzma-rs does not, and which C17 does not list).
/// `exact_packed`: demand that a compressed chunk consumes exactly its declared
/// packed size (liblzma does; C17 lists only "needs more input than declared").
pub fn decode_lzma2(
    input: &[u8],
    strict_sequence: bool,
    exact_packed: bool,
    out_cap: usize,
) -> Result<L2Ok, L2Err> {
    let mut dec = RefDecoder::new(Props::new(0, 0, 0), u64::MAX);
    let mut pos = 0usize;
    let mut need_props = true;
    let mut need_dict_reset = true;
    loop {
        let control = *input.get(pos).ok_or(L2Err::Truncated)?;
        pos += 1;
        if control == 0 {
            return Ok(L2Ok {
                out: dec.out,
                consumed: pos,
            });
        }
        if control >= 0xE0 || control == 1 {
            need_props = true;
            need_dict_reset = false;
            dec.base = dec.out.len();
        } else if need_dict_reset && strict_sequence {
            return Err(L2Err::Sequence);
        }
        if control >= 0x80 {
            if pos + 4 > input.len() {
                return Err(L2Err::Truncated);
            }
            let unpacked = ((((control & 0x1F) as usize) << 16)
                | ((input[pos] as usize) << 8)
                | input[pos + 1] as usize)
                + 1;
            let packed = (((input[pos + 2] as usize) << 8) | input[pos + 3] as usize) + 1;
            pos += 4;
            let mode = (control >> 5) & 3;
            if mode >= 2 {
                let pb = *input.get(pos).ok_or(L2Err::Truncated)?;
                pos += 1;
                let p = Props::from_byte(pb).ok_or(L2Err::BadProps(pb))?;
                if p.lc + p.lp > 4 {
                    return Err(L2Err::BadProps(pb));
                }
                dec.model.reset(p);
                need_props = false;
            } else {
                if need_props && strict_sequence {
                    return Err(L2Err::Sequence);
                }
                if mode == 1 {
                    let p = dec.model.props;
                    dec.model.reset(p);
                }
            }
            let avail = input.len() - pos;
            let slice = &input[pos..pos + packed.min(avail)];
            let target = dec.produced() + unpacked as u64;
            match dec.run(slice, Some(target), out_cap) {
                Ok(r) => {
                    if packed > avail {
                        // everything needed was inside the bytes that exist, but
                        // the chunk is declared longer than the input: a strict
                        // decoder wants all declared bytes
                        if exact_packed {
                            return Err(L2Err::Truncated);
                        }
                        pos += r.consumed;
                    } else if exact_packed && r.consumed != packed {
                        return Err(L2Err::PackedSlack {
                            used: r.consumed,
                            declared: packed,
                        });
                    } else {
                        // lzma-rs continues reading right after what the range
                        // decoder consumed (io::Take is dropped, not drained)
                        pos += if exact_packed { packed } else { r.consumed };
                    }
                }
                Err(DecErr::OutputCap) => return Err(L2Err::OutputCap),
                Err(DecErr::InputExhausted) if packed > avail => return Err(L2Err::Truncated),
                Err(e) => return Err(L2Err::Lzma(e)),
            }
        } else {
            if control > 2 {
                return Err(L2Err::BadControl(control));
            }
            if pos + 2 > input.len() {
                return Err(L2Err::Truncated);
            }
            let n = (((input[pos] as usize) << 8) | input[pos + 1] as usize) + 1;
            pos += 2;
            if pos + n > input.len() {
                return Err(L2Err::Truncated);
            }
            dec.out.extend_from_slice(&input[pos..pos + n]);
            pos += n;
            if dec.out.len() > out_cap {
                return Err(L2Err::OutputCap);
            }
        }
    }
}
