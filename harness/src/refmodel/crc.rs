//! Own CRC32 (IEEE 802.3, reflected, poly 0xEDB88320) and CRC64 (ECMA-182
//! reflected, poly 0xC96C5795D7870F42, as used by .xz). Bitwise table
//! construction; validated against liblzma in `selftest`.

pub struct Tables {
    t32: [u32; 256],
    t64: [u64; 256],
}

fn tables() -> &'static Tables {
    use std::sync::OnceLock;
    static T: OnceLock<Tables> = OnceLock::new();
    T.get_or_init(|| {
        let mut t32 = [0u32; 256];
        let mut t64 = [0u64; 256];
        for i in 0..256u32 {
            let mut c = i;
            for _ in 0..8 {
                c = if c & 1 != 0 { (c >> 1) ^ 0xEDB8_8320 } else { c >> 1 };
            }
            t32[i as usize] = c;
            let mut d = i as u64;
            for _ in 0..8 {
                d = if d & 1 != 0 {
                    (d >> 1) ^ 0xC96C_5795_D787_0F42
                } else {
                    d >> 1
                };
            }
            t64[i as usize] = d;
        }
        Tables { t32, t64 }
    })
}

pub fn crc32(data: &[u8]) -> u32 {
    let t = tables();
    let mut c = 0xFFFF_FFFFu32;
    for &b in data {
        c = t.t32[((c ^ b as u32) & 0xFF) as usize] ^ (c >> 8);
    }
    !c
}

pub fn crc64(data: &[u8]) -> u64 {
    let t = tables();
    let mut c = !0u64;
    for &b in data {
        c = t.t64[((c ^ b as u64) & 0xFF) as usize] ^ (c >> 8);
    }
    !c
}

#[cfg(test)]
mod t {
    #[test]
    fn known() {
        assert_eq!(super::crc32(b"123456789"), 0xCBF4_3926);
        assert_eq!(super::crc64(b"123456789"), 0x995D_C9BB_DF19_39FA);
    }
}

/// SHA-256 (FIPS 180-4), for .xz files that declare check id 0x0A.
pub fn sha256(data: &[u8]) -> [u8; 32] {
    const K: [u32; 64] = [
        0x428a2f98, 0x71374491, 0xb5c0fbcf, 0xe9b5dba5, 0x3956c25b, 0x59f111f1, 0x923f82a4, 0xab1c5ed5, 0xd807aa98, 0x12835b01,
        0x243185be, 0x550c7dc3, 0x72be5d74, 0x80deb1fe, 0x9bdc06a7, 0xc19bf174, 0xe49b69c1, 0xefbe4786, 0x0fc19dc6, 0x240ca1cc,
        0x2de92c6f, 0x4a7484aa, 0x5cb0a9dc, 0x76f988da, 0x983e5152, 0xa831c66d, 0xb00327c8, 0xbf597fc7, 0xc6e00bf3, 0xd5a79147,
        0x06ca6351, 0x14292967, 0x27b70a85, 0x2e1b2138, 0x4d2c6dfc, 0x53380d13, 0x650a7354, 0x766a0abb, 0x81c2c92e, 0x92722c85,
        0xa2bfe8a1, 0xa81a664b, 0xc24b8b70, 0xc76c51a3, 0xd192e819, 0xd6990624, 0xf40e3585, 0x106aa070, 0x19a4c116, 0x1e376c08,
        0x2748774c, 0x34b0bcb5, 0x391c0cb3, 0x4ed8aa4a, 0x5b9cca4f, 0x682e6ff3, 0x748f82ee, 0x78a5636f, 0x84c87814, 0x8cc70208,
        0x90befffa, 0xa4506ceb, 0xbef9a3f7, 0xc67178f2,
    ];
    let mut h: [u32; 8] = [
        0x6a09e667, 0xbb67ae85, 0x3c6ef372, 0xa54ff53a, 0x510e527f, 0x9b05688c, 0x1f83d9ab, 0x5be0cd19,
    ];
    let mut msg = data.to_vec();
    let bitlen = (data.len() as u64).wrapping_mul(8);
    msg.push(0x80);
    while msg.len() % 64 != 56 {
        msg.push(0);
    }
    msg.extend_from_slice(&bitlen.to_be_bytes());
    for block in msg.chunks(64) {
        let mut w = [0u32; 64];
        for i in 0..16 {
            w[i] = u32::from_be_bytes(block[4 * i..4 * i + 4].try_into().unwrap());
        }
        for i in 16..64 {
            let s0 = w[i - 15].rotate_right(7) ^ w[i - 15].rotate_right(18) ^ (w[i - 15] >> 3);
            let s1 = w[i - 2].rotate_right(17) ^ w[i - 2].rotate_right(19) ^ (w[i - 2] >> 10);
            w[i] = w[i - 16].wrapping_add(s0).wrapping_add(w[i - 7]).wrapping_add(s1);
        }
        let [mut a, mut b, mut c, mut d, mut e, mut f, mut g, mut hh] = h;
        for i in 0..64 {
            let s1 = e.rotate_right(6) ^ e.rotate_right(11) ^ e.rotate_right(25);
            let ch = (e & f) ^ (!e & g);
            let t1 = hh.wrapping_add(s1).wrapping_add(ch).wrapping_add(K[i]).wrapping_add(w[i]);
            let s0 = a.rotate_right(2) ^ a.rotate_right(13) ^ a.rotate_right(22);
            let maj = (a & b) ^ (a & c) ^ (b & c);
            let t2 = s0.wrapping_add(maj);
            hh = g;
            g = f;
            f = e;
            e = d.wrapping_add(t1);
            d = c;
            c = b;
            b = a;
            a = t1.wrapping_add(t2);
        }
        for (x, y) in h.iter_mut().zip([a, b, c, d, e, f, g, hh]) {
            *x = x.wrapping_add(y);
        }
    }
    let mut out = [0u8; 32];
    for (i, x) in h.iter().enumerate() {
        out[4 * i..4 * i + 4].copy_from_slice(&x.to_be_bytes());
    }
    out
}

#[cfg(test)]
mod sha_tests {
    #[test]
    fn vectors() {
        let hex = |b: &[u8]| b.iter().map(|x| format!("{:02x}", x)).collect::<String>();
        assert_eq!(hex(&super::sha256(b"")), "e3b0c44298fc1c149afbf4c8996fb92427ae41e4649b934ca495991b7852b855");
        assert_eq!(hex(&super::sha256(b"abc")), "ba7816bf8f01cfea414140de5dae2223b00361a396177a9cb410ff61f20015ad");
        let m = vec![b'a'; 1000];
        assert_eq!(hex(&super::sha256(&m)), "41edece42d63e8d9bf515a9ba6932e1c20cbc9f5a5d134645adb5db1b9737ea3");
    }
}
