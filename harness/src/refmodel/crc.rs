//! Own CRC32 (IEEE 802.3, reflected, poly 0xEDB88320) and CRC64 (ECMA-182
//! reflected, poly 0xC96C5795D7870F42, as used by .xz). Bitwise table
//! construction; validated against liblzma in `selftest`.

pub struct Tables {
    t32: [u32; 256],
    t64: [u64; 256],
}

fn tables() -> &'static Tables {
    use std::sync::OnceLock;
    static T: OnceLock<Tables> = OnceLock::new();
    T.get_or_init(|| {
        let mut t32 = [0u32; 256];
        let mut t64 = [0u64; 256];
        for i in 0..256u32 {
            let mut c = i;
            for _ in 0..8 {
                c = if c & 1 != 0 { (c >> 1) ^ 0xEDB8_8320 } else { c >> 1 };
            }
            t32[i as usize] = c;
            let mut d = i as u64;
            for _ in 0..8 {
                d = if d & 1 != 0 {
                    (d >> 1) ^ 0xC96C_5795_D787_0F42
                } else {
                    d >> 1
                };
            }
            t64[i as usize] = d;
        }
        Tables { t32, t64 }
    })
}

pub fn crc32(data: &[u8]) -> u32 {
    let t = tables();
    let mut c = 0xFFFF_FFFFu32;
    for &b in data {
        c = t.t32[((c ^ b as u32) & 0xFF) as usize] ^ (c >> 8);
    }
    !c
}

pub fn crc64(data: &[u8]) -> u64 {
    let t = tables();
    let mut c = !0u64;
    for &b in data {
        c = t.t64[((c ^ b as u64) & 0xFF) as usize] ^ (c >> 8);
    }
    !c
}

#[cfg(test)]
mod t {
    #[test]
    fn known() {
        assert_eq!(super::crc32(b"123456789"), 0xCBF4_3926);
        assert_eq!(super::crc64(b"123456789"), 0x995D_C9BB_DF19_39FA);
    }
}
