//! Plain reference LZMA decoder (LzmaSpec semantics) with explicit end rules.
//! It normalises eagerly (right after each decision), i.e. it is in lock-step
//! with a conforming encoder: a payload of 5+N bytes is consumed completely.

use super::enc::SymInfo;
use super::model::*;

const TOP: u32 = 1 << 24;

#[derive(Clone, Debug, PartialEq, Eq)]
pub enum DecErr {
    /// the input ended while a symbol (or the 5-byte preamble) needed more
    InputExhausted,
    /// copy distance beyond produced output / beyond dictionary
    BadDistance { produced: u64, dist: u64 },
    /// end marker seen, but range coder not finished or bytes follow
    MarkerNotAtEnd,
    /// size in effect but produced != size at the stop point
    SizeMismatch { produced: u64, want: u64 },
    /// more output than the caller's cap (decompression bomb guard)
    OutputCap,
}

#[derive(Clone, Copy, Debug, PartialEq, Eq)]
pub enum EndKind {
    SizeReached,
    Marker,
    /// no size in effect, input ended exactly on a symbol boundary with code == 0
    LenientEof,
}

struct Rc<'a> {
    inp: &'a [u8],
    pos: usize,
    range: u32,
    code: u32,
}

impl<'a> Rc<'a> {
    fn new(inp: &'a [u8]) -> Result<Self, DecErr> {
        if inp.len() < 5 {
            return Err(DecErr::InputExhausted);
        }
        let code = u32::from_be_bytes([inp[1], inp[2], inp[3], inp[4]]);
        Ok(Rc {
            inp,
            pos: 5,
            range: 0xFFFF_FFFF,
            code,
        })
    }
    #[inline]
    fn norm(&mut self) -> Result<(), DecErr> {
        if self.range < TOP {
            if self.pos >= self.inp.len() {
                return Err(DecErr::InputExhausted);
            }
            self.range <<= 8;
            self.code = (self.code << 8) | self.inp[self.pos] as u32;
            self.pos += 1;
        }
        Ok(())
    }
    #[inline]
    fn bit(&mut self, p: &mut u16) -> Result<u32, DecErr> {
        let bound = (self.range >> 11) * (*p as u32);
        let b;
        if self.code < bound {
            self.range = bound;
            *p += (2048 - *p) >> 5;
            b = 0;
        } else {
            self.code -= bound;
            self.range -= bound;
            *p -= *p >> 5;
            b = 1;
        }
        self.norm()?;
        Ok(b)
    }
    fn direct(&mut self, n: u32) -> Result<u32, DecErr> {
        let mut r = 0u32;
        for _ in 0..n {
            self.range >>= 1;
            let b = if self.code >= self.range {
                self.code -= self.range;
                1
            } else {
                0
            };
            r = (r << 1) | b;
            self.norm()?;
        }
        Ok(r)
    }
    fn tree(&mut self, probs: &mut [u16], nbits: u32) -> Result<u32, DecErr> {
        let mut m = 1usize;
        for _ in 0..nbits {
            m = (m << 1) | self.bit(&mut probs[m])? as usize;
        }
        Ok(m as u32 - (1 << nbits))
    }
    fn tree_rev(&mut self, probs: &mut [u16], off: usize, nbits: u32) -> Result<u32, DecErr> {
        let mut m = 1usize;
        let mut r = 0u32;
        for i in 0..nbits {
            let b = self.bit(&mut probs[off + m])?;
            m = (m << 1) | b as usize;
            r |= b << i;
        }
        Ok(r)
    }
}

fn dec_len(rc: &mut Rc, lm: &mut LenModel, ps: usize) -> Result<u32, DecErr> {
    if rc.bit(&mut lm.choice)? == 0 {
        Ok(rc.tree(&mut lm.low[ps], 3)?)
    } else if rc.bit(&mut lm.choice2)? == 0 {
        Ok(8 + rc.tree(&mut lm.mid[ps], 3)?)
    } else {
        Ok(16 + rc.tree(&mut lm.high, 8)?)
    }
}

pub struct RefDecoder {
    pub model: Model,
    pub out: Vec<u8>,
    pub base: usize,
    pub dict: u64,
    pub table: Vec<SymInfo>,
    pub record_table: bool,
}

#[derive(Clone, Copy, Debug)]
pub struct RunOk {
    pub consumed: usize,
    pub end: EndKind,
}

impl RefDecoder {
    pub fn new(props: Props, dict: u64) -> Self {
        RefDecoder {
            model: Model::new(props),
            out: Vec::new(),
            base: 0,
            dict,
            table: Vec::new(),
            record_table: false,
        }
    }

    pub fn produced(&self) -> u64 {
        (self.out.len() - self.base) as u64
    }

    fn byte_at(&self, dist: u64) -> Result<u8, DecErr> {
        let produced = self.produced();
        if dist > produced || dist > self.dict {
            return Err(DecErr::BadDistance { produced, dist });
        }
        Ok(self.out[self.out.len() - dist as usize])
    }

    fn copy(&mut self, dist: u64, len: u32) -> Result<(), DecErr> {
        let produced = self.produced();
        if dist > produced || dist > self.dict {
            return Err(DecErr::BadDistance { produced, dist });
        }
        let mut src = self.out.len() - dist as usize;
        for _ in 0..len {
            let b = self.out[src];
            self.out.push(b);
            src += 1;
        }
        Ok(())
    }

    /// Decode one range-coded run from `input` (starting with the 5-byte
    /// preamble). `target`: total `produced()` at which to stop (size in
    /// effect), or None (run to the marker). `out_cap`: max bytes in `out`.
    pub fn run(
        &mut self,
        input: &[u8],
        target: Option<u64>,
        out_cap: usize,
    ) -> Result<RunOk, DecErr> {
        let mut rc = Rc::new(input)?;
        let end;
        loop {
            if let Some(t) = target {
                if self.produced() >= t {
                    end = EndKind::SizeReached;
                    break;
                }
            } else if rc.code == 0 && rc.pos == input.len() {
                end = EndKind::LenientEof;
                break;
            }
            if self.out.len() > out_cap {
                return Err(DecErr::OutputCap);
            }
            let pos = self.produced();
            let ps = self.model.pos_state(pos);
            let st = self.model.state;
            if rc.bit(&mut self.model.is_match[st][ps])? == 0 {
                // literal
                let prev = if pos > 0 { self.out[self.out.len() - 1] } else { 0 };
                let base = self.model.lit_base(pos, prev);
                let mut symbol = 1usize;
                if st >= 7 {
                    let mut mb = self.byte_at(self.model.reps[0] as u64 + 1)? as usize;
                    let probs = &mut self.model.lit[base..base + 0x300];
                    while symbol < 0x100 {
                        let match_bit = (mb >> 7) & 1;
                        mb = (mb << 1) & 0xFF;
                        let bit = rc.bit(&mut probs[((1 + match_bit) << 8) + symbol])? as usize;
                        symbol = (symbol << 1) | bit;
                        if match_bit != bit {
                            break;
                        }
                    }
                }
                let probs = &mut self.model.lit[base..base + 0x300];
                while symbol < 0x100 {
                    symbol = (symbol << 1) | rc.bit(&mut probs[symbol])? as usize;
                }
                self.out.push((symbol - 0x100) as u8);
                self.model.state = Model::state_after_lit(st);
            } else if rc.bit(&mut self.model.is_rep[st])? == 0 {
                // new match
                let len = 2 + dec_len(&mut rc, &mut self.model.len, ps)?;
                let len_state = ((len - 2).min(3)) as usize;
                let slot = rc.tree(&mut self.model.pos_slot[len_state], 6)?;
                let dist0 = if slot < 4 {
                    slot
                } else {
                    let fb = (slot >> 1) - 1;
                    let base = (2 | (slot & 1)) << fb;
                    if slot < 14 {
                        base + rc.tree_rev(&mut self.model.pos_special, (base - slot) as usize, fb)?
                    } else {
                        let hi = rc.direct(fb - 4)?;
                        let lo = rc.tree_rev(&mut self.model.align, 0, 4)?;
                        base.wrapping_add(hi << 4).wrapping_add(lo)
                    }
                };
                let r = self.model.reps;
                self.model.reps = [dist0, r[0], r[1], r[2]];
                self.model.state = Model::state_after_match(st);
                if dist0 == END_MARKER_DIST0 {
                    if rc.code == 0 && rc.pos == input.len() {
                        end = EndKind::Marker;
                        if self.record_table {
                            self.table.push(SymInfo {
                                consumed: rc.pos as u64,
                                produced: self.out.len() as u64,
                            });
                        }
                        break;
                    }
                    return Err(DecErr::MarkerNotAtEnd);
                }
                self.copy(dist0 as u64 + 1, len)?;
            } else {
                // rep
                let mut short = false;
                if rc.bit(&mut self.model.is_rep_g0[st])? == 0 {
                    if rc.bit(&mut self.model.is_rep0_long[st][ps])? == 0 {
                        short = true;
                    }
                } else {
                    let idx = if rc.bit(&mut self.model.is_rep_g1[st])? == 0 {
                        1
                    } else if rc.bit(&mut self.model.is_rep_g2[st])? == 0 {
                        2
                    } else {
                        3
                    };
                    let d = self.model.reps[idx];
                    for i in (0..idx).rev() {
                        self.model.reps[i + 1] = self.model.reps[i];
                    }
                    self.model.reps[0] = d;
                }
                if short {
                    self.model.state = Model::state_after_shortrep(st);
                    self.copy(self.model.reps[0] as u64 + 1, 1)?;
                } else {
                    let len = 2 + dec_len(&mut rc, &mut self.model.rep_len, ps)?;
                    self.model.state = Model::state_after_rep(st);
                    self.copy(self.model.reps[0] as u64 + 1, len)?;
                }
            }
            if self.record_table {
                self.table.push(SymInfo {
                    consumed: rc.pos as u64,
                    produced: self.out.len() as u64,
                });
            }
        }
        if let Some(t) = target {
            if self.produced() != t {
                return Err(DecErr::SizeMismatch {
                    produced: self.produced(),
                    want: t,
                });
            }
        }
        Ok(RunOk {
            consumed: rc.pos,
            end,
        })
    }
}

/// Decode a raw LZMA1 payload.
pub fn decode_lzma(
    props: Props,
    dict: u64,
    size: Option<u64>,
    payload: &[u8],
    out_cap: usize,
) -> Result<(Vec<u8>, RunOk, Vec<SymInfo>), DecErr> {
    let mut d = RefDecoder::new(props, dict);
    d.record_table = true;
    let r = d.run(payload, size, out_cap)?;
    Ok((d.out, r, d.table))
}
