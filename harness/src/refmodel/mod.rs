//! Independent reference model of LZMA / LZMA2 / XZ (trusted base of the checks).
pub mod crc;
pub mod dec;
pub mod enc;
pub mod lzma2;
pub mod model;
pub mod program;
pub mod xz;
