//! Bridge between byte-level fuzzers (libFuzzer targets in /verif/fuzz) and the
//! per-property oracles: decode the fuzzer's bytes into a property Case, judge
//! it with the *same* oracle function the proptest search uses.
//!
//! Byte formats are "selector prefix + payload" so that corpus files are easy
//! to produce from the harness' own generators (`verif corpus`).

use crate::gen::lzma2::{concretize_chunks, AbsChunk, L2Cfg};
use crate::gen::program::{concretize, AbsOp, ConcCfg, LitKind};
use crate::gen::xz::{XzCase, XzCaseBlock};
use crate::props::{c01, c02, c03, c05, c06, c07, c13, c16};
use crate::refmodel::model::Props;
use crate::refmodel::lzma2::Chunk;
use crate::runner::{Judgement, Known, LocalStats, Property};
use crate::sut::{Call, Opts, ReaderKind, USize};

pub const TARGETS: [&str; 8] = [
    "fz_stream_diff",
    "fz_total",
    "fz_reader_diff",
    "fz_stream_calls",
    "fz_xz_sealed",
    "fz_program",
    "fz_chunks",
    "fz_xz_valid",
];

pub fn property_of(target: &str) -> &'static str {
    match target {
        "fz_stream_diff" => "C05",
        "fz_total" => "C07",
        "fz_reader_diff" => "C13",
        "fz_stream_calls" => "C16",
        "fz_xz_sealed" => "C06",
        "fz_program" => "C01",
        "fz_chunks" => "C02",
        "fz_xz_valid" => "C03",
        _ => "?",
    }
}

fn opts_from(sel: u8, n: u64, mem: u8) -> Opts {
    let mut o = Opts::with(match sel % 5 {
        0 => USize::ReadFromHeader,
        1 => USize::ReadHeaderButUseProvided(None),
        2 => USize::ReadHeaderButUseProvided(Some(n)),
        3 => USize::UseProvided(None),
        _ => USize::UseProvided(Some(n)),
    });
    o.memlimit = match mem % 8 {
        0..=5 => None,
        6 => Some(0),
        _ => Some(4096),
    };
    o.allow_incomplete = sel & 0x80 != 0;
    o
}

fn n_from(b: &[u8]) -> u64 {
    match b[0] % 4 {
        0 => b[1] as u64,
        1 => ((b[0] as u64) << 8) | b[1] as u64,
        2 => 1 << 40,
        _ => u64::MAX - b[1] as u64,
    }
}

// ---------------------------------------------------------------------------
// structure-aware targets: bytes -> abstract symbol programs / chunk lists

/// 4 bytes per op: [kind, a, b, c]
fn ops_from(data: &[u8]) -> Vec<AbsOp> {
    let mut v = Vec::new();
    let mut i = 0;
    let mut pending_run: Option<u16> = None;
    while i + 4 <= data.len() && v.len() < 200 {
        let (k, a, b, c) = (data[i], data[i + 1], data[i + 2], data[i + 3]);
        i += 4;
        let sel = ((b as u16) << 8) | c as u16;
        let op = match k % 10 {
            0 | 1 => AbsOp::Lit(LitKind::Given, a),
            2 => AbsOp::Lit(LitKind::MatchFlip(a % 8), b),
            3 => AbsOp::Lit(if a % 2 == 0 { LitKind::MatchByte } else { LitKind::Noise }, b),
            4 | 5 => AbsOp::Match { dclass: a % 7, dsel: sel, lclass: (a >> 3) % 7, lsel: sel.rotate_left(5) },
            6 => AbsOp::ShortRep,
            7 | 8 => AbsOp::Rep { idx: a % 4, lclass: (a >> 2) % 7, lsel: sel },
            _ => {
                pending_run = Some(1 + (sel % 200));
                continue;
            }
        };
        match pending_run.take() {
            Some(kk) => v.push(AbsOp::Run { k: kk, op: Box::new(op) }),
            None => v.push(op),
        }
    }
    v
}

fn props_from(b: u8, lzma2: bool) -> Props {
    let p = Props::from_byte(b % 225).unwrap();
    if lzma2 && p.lc + p.lp > 4 {
        Props::new(p.lc.min(4 - p.lp.min(4)), p.lp.min(4), p.pb)
    } else {
        p
    }
}

// C01: [props, container/dict, term, redeclare, ops...]
pub fn c01_case(data: &[u8]) -> Option<c01::Case> {
    if data.len() < 4 {
        return None;
    }
    let props = props_from(data[0], false);
    let dicts_raw = [1u32, 2, 3, 4, 5, 7, 8, 16, 17, 63, 64, 255, 300, 4095, 4096, 65536];
    let dicts_hdr = [0u32, 1, 4095, 4096, 4097, 5000, 8192, 65536, 1 << 23, 1 << 31, 0xFFFF_FFFF];
    let (container, dict) = match data[1] % 4 {
        0 => (c01::Container::Header13, dicts_hdr[(data[1] >> 2) as usize % dicts_hdr.len()]),
        1 => (c01::Container::Header5, dicts_hdr[(data[1] >> 2) as usize % dicts_hdr.len()]),
        2 => (c01::Container::Raw, dicts_raw[(data[1] >> 2) as usize % dicts_raw.len()]),
        _ => (c01::Container::RawReset { init: (data[1] >> 2) as u64 }, dicts_raw[(data[3] >> 2) as usize % dicts_raw.len()]),
    };
    let eff = c01::effective_dict(container, dict);
    let ops = concretize(&ops_from(&data[4..]), ConcCfg { dict: eff, max_out: 30_000, max_ops: 2_000 });
    Some(c01::Case {
        props,
        dict,
        ops,
        term: match data[2] % 5 {
            0 | 1 => crate::props::common::Term::Marker(2 + (data[2] as u32 >> 3) % 9),
            2 | 3 => crate::props::common::Term::Size,
            _ => crate::props::common::Term::Both(2),
        },
        container,
        redeclare_sel: ((data[3] as u16) << 8) | data[2] as u16,
    })
}

/// chunk list: [kind, p0, p1, p2, nops] + 4*nops bytes
fn chunks_from(data: &[u8], max_total: usize) -> Vec<crate::refmodel::lzma2::Chunk> {
    let mut abs = Vec::new();
    let mut i = 0;
    while i + 5 <= data.len() && abs.len() < 300 {
        let (k, p0, p1, p2, n) = (data[i], data[i + 1], data[i + 2], data[i + 3], data[i + 4]);
        i += 5;
        if k % 4 == 0 {
            abs.push(AbsChunk::Raw {
                reset_dict: p0 % 5 == 0,
                len_class: if p1 % 16 == 0 { 2 + p1 % 3 } else { p1 % 2 },
                len_sel: ((p1 as u16) << 8) | p2 as u16,
                fill: p2 % 3,
                seed: p0,
            });
        } else {
            let nops = (n as usize % 48).min((data.len() - i) / 4);
            let prog = ops_from(&data[i..i + 4 * nops]);
            i += 4 * nops;
            abs.push(AbsChunk::Lzma {
                reset: k >> 6,
                props: props_from(p0, true),
                lead: p1,
                prog,
                exact64k: if p2 % 64 == 0 { 1 + (p2 >> 6) } else { 0 },
            });
        }
    }
    concretize_chunks(&abs, L2Cfg { max_total, max_chunk_ops: 2_000 })
}

pub fn c02_case(data: &[u8]) -> Option<c02::Case> {
    if data.len() < 6 {
        return None;
    }
    Some(c02::Case {
        chunks: chunks_from(&data[1..], 140_000),
        xz_check: [0u8, 1, 4][data[0] as usize % 3],
    })
}

// C03: [check, nblocks, then per block: flags, pad, dict_extra, len_lo, len_hi, chunk bytes...]
pub fn c03_case(data: &[u8]) -> Option<XzCase> {
    if data.len() < 2 {
        return None;
    }
    let check = [0u8, 1, 4][data[0] as usize % 3];
    let nblocks = (data[1] % 6) as usize;
    let mut blocks = Vec::new();
    let mut i = 2;
    for _ in 0..nblocks {
        if i + 5 > data.len() {
            break;
        }
        let (flags, pad, de, lo, hi) = (data[i], data[i + 1], data[i + 2], data[i + 3], data[i + 4]);
        i += 5;
        let n = ((((hi as usize) << 8) | lo as usize) % 600).min(data.len() - i);
        let chunks = chunks_from(&data[i..i + n], 20_000);
        i += n;
        blocks.push(XzCaseBlock {
            has_packed: flags & 1 != 0,
            has_unpacked: flags & 2 != 0,
            extra_pad4: if pad % 4 == 0 { pad } else { pad % 4 },
            dict_extra: de % 14,
            chunks,
        });
    }
    Some(XzCase { check, blocks })
}

// ---------------------------------------------------------------------------
// C05: [osel, n0, n1, k, piece bytes x k, input...]

pub fn c05_case(data: &[u8]) -> Option<c05::Case> {
    if data.len() < 4 {
        return None;
    }
    let k = (data[3] % 33) as usize;
    if data.len() < 4 + k {
        return None;
    }
    let mut opts = opts_from(data[0], n_from(&data[1..3]), 0);
    opts.allow_incomplete = false;
    let input = data[4 + k..].to_vec();
    let pat = &data[4..4 + k];
    let mut pieces = Vec::new();
    let mut left = input.len();
    let mut i = 0;
    while left > 0 && !pat.is_empty() && pieces.len() < 4096 {
        let p = (pat[i % pat.len()] as usize % 40).min(left);
        pieces.push(p);
        left -= p;
        i += 1;
        if i >= pat.len() && pat.iter().all(|x| x % 40 == 0) {
            break;
        }
    }
    if left > 0 || pieces.is_empty() {
        pieces.push(left);
    }
    Some(c05::Case {
        input,
        opts,
        pieces,
        header_len: opts.header_len(),
        sym_ends: vec![],
        first_mut_at: 0,
        kind: "random".into(),
    })
}

pub fn c05_bytes(c: &c05::Case) -> Vec<u8> {
    let (sel, n) = match c.opts.usize_ {
        USize::ReadFromHeader => (0u8, 0u64),
        USize::ReadHeaderButUseProvided(None) => (1, 0),
        USize::ReadHeaderButUseProvided(Some(n)) => (2, n),
        USize::UseProvided(None) => (3, 0),
        USize::UseProvided(Some(n)) => (4, n),
    };
    let n = n.min(0x3FF) as u16;
    let (b0, b1) = if n < 256 { (0u8, n as u8) } else { ((((n >> 8) as u8) << 2) | 1, n as u8) };
    let pat: Vec<u8> = c.pieces.iter().take(32).map(|p| (*p).min(39) as u8).collect();
    let mut v = vec![sel, b0, b1, pat.len() as u8];
    v.extend_from_slice(&pat);
    v.extend_from_slice(&c.input);
    v
}

// ---------------------------------------------------------------------------
// C07: [entry, p0, p1, p2, p3, input...]

pub fn c07_case(data: &[u8]) -> Option<c07::Case> {
    if data.len() < 5 {
        return None;
    }
    let input = data[5..].to_vec();
    let opts = opts_from(data[1], n_from(&data[2..4]), data[4]);
    let entry = match data[0] % 8 {
        0 => c07::Entry::Lzma(opts),
        1 => c07::Entry::Lzma2,
        2 | 3 => c07::Entry::Xz,
        4 => {
            let mut script = Vec::new();
            let mut planned = 0usize;
            let mut x = data[2] as usize * 131 + data[3] as usize + 1;
            while planned < input.len() && script.len() < 600 {
                x = x.wrapping_mul(1103515245).wrapping_add(12345);
                let p = 1 + (x >> 16) % (1 + data[4] as usize % 40);
                match (x >> 8) % 9 {
                    0 => script.push(Call::Flush),
                    1 => script.push(Call::GetOutput),
                    _ => {
                        script.push(Call::WriteOnce(p));
                        planned += p;
                    }
                }
            }
            script.push(Call::Write(usize::MAX / 2));
            c07::Entry::Stream { opts, script }
        }
        5 | 6 => c07::Entry::RawLzma {
            lc: (data[1] % 9) as u32,
            lp: ((data[1] / 9) % 5) as u32,
            pb: (data[2] % 5) as u32,
            dict: match data[3] % 6 {
                0 => 0,
                1 => 1,
                2 => data[4] as u32,
                3 => 4096,
                4 => u32::MAX,
                _ => 1 << 31,
            },
            size: if data[4] & 1 == 0 { None } else { Some(n_from(&data[2..4])) },
            memlimit: opts.memlimit,
            again: if data[4] & 2 == 0 { None } else { Some(Some(None)) },
        },
        _ => c07::Entry::RawLzma2 { again: data[1] & 1 == 1 },
    };
    Some(c07::Case {
        entry,
        input,
        kind: "random".into(),
        known_output: None,
    })
}

pub fn c07_bytes(c: &c07::Case) -> Vec<u8> {
    let sel = match &c.entry {
        c07::Entry::Lzma(_) => 0u8,
        c07::Entry::Lzma2 => 1,
        c07::Entry::Xz => 2,
        c07::Entry::Stream { .. } => 4,
        c07::Entry::RawLzma { .. } => 5,
        c07::Entry::RawLzma2 { .. } => 7,
    };
    let mut v = vec![sel, 0, 0, 0, 0];
    v.extend_from_slice(&c.input);
    v
}

// ---------------------------------------------------------------------------
// C13: [format, rkind, cap, p0, p1, p2, input...]

pub fn c13_case(data: &[u8]) -> Option<c13::Case> {
    if data.len() < 6 {
        return None;
    }
    let input = data[6..].to_vec();
    let format = match data[0] % 8 {
        0 | 1 => c13::Format::Lzma(opts_from(data[0] >> 3, n_from(&data[3..5]), 0)),
        2 => c13::Format::Lzma2,
        3 => c13::Format::Lzma2Raw,
        4 => c13::Format::LzmaRaw {
            props: crate::refmodel::model::Props::new(3, 0, 2),
            dict: 1 + data[3] as u32,
            size: None,
        },
        _ => c13::Format::Xz,
    };
    let pattern: Vec<usize> = data[3..6].iter().map(|b| 1 + (*b as usize % 37)).collect();
    let reader = match data[1] % 4 {
        0 => ReaderKind::BufReader { cap: 1 + data[2] as usize % 64, reads: vec![] },
        1 => ReaderKind::BufReader { cap: 1 + data[2] as usize % 64, reads: pattern },
        2 => ReaderKind::Chunky { pattern: vec![1], stops: vec![] },
        _ => ReaderKind::Chunky { pattern, stops: vec![data[2] as usize] },
    };
    if let c13::Format::Lzma(mut o) = format {
        o.allow_incomplete = false;
        return Some(c13::Case {
            format: c13::Format::Lzma(o),
            input,
            reader,
            kind: "random".into(),
        });
    }
    Some(c13::Case {
        format,
        input,
        reader,
        kind: "random".into(),
    })
}

pub fn c13_bytes(c: &c13::Case) -> Vec<u8> {
    let f = match c.format {
        c13::Format::Lzma(_) => 0u8,
        c13::Format::Lzma2 => 2,
        c13::Format::Lzma2Raw => 3,
        c13::Format::LzmaRaw { .. } => 4,
        c13::Format::Xz => 5,
    };
    let mut v = vec![f, 2, 0, 0, 0, 0];
    v.extend_from_slice(&c.input);
    v
}

// ---------------------------------------------------------------------------
// C16: [osel, n0, n1, k, script bytes x k, input...]

pub fn c16_case(data: &[u8]) -> Option<c16::Case> {
    if data.len() < 4 {
        return None;
    }
    let k = (data[3] % 33) as usize;
    if data.len() < 4 + k {
        return None;
    }
    let mut opts = opts_from(data[0], n_from(&data[1..3]), 0);
    opts.allow_incomplete = false;
    let input = data[4 + k..].to_vec();
    let pat = &data[4..4 + k];
    let mut script = Vec::new();
    let mut planned = 0usize;
    let mut i = 0;
    while planned < input.len() && !pat.is_empty() && script.len() < 2000 {
        let b = pat[i % pat.len()];
        match b % 8 {
            0 => script.push(Call::Flush),
            1 => script.push(Call::GetOutput),
            _ => {
                let p = 1 + (b as usize >> 3);
                script.push(Call::WriteOnce(p));
                planned += p;
            }
        }
        i += 1;
    }
    script.push(Call::WriteOnce(usize::MAX / 2));
    for b in pat.iter().take(6) {
        script.push(match b % 3 {
            0 => Call::Flush,
            1 => Call::GetOutput,
            _ => Call::WriteOnce(1 + (*b as usize % 9)),
        });
    }
    Some(c16::Case {
        input,
        opts,
        script,
        sink_fail_at: None,
        sink_err_style: 0,
        payload_end: None,
        expected: vec![],
        finish_ok: true,
        kind: "random".into(),
    })
}

pub fn c16_bytes(input: &[u8], sel: u8) -> Vec<u8> {
    let mut v = vec![sel, 0, 0, 5, 0x12, 0x1A, 0x00, 0x3B, 0x09];
    v.extend_from_slice(input);
    v
}

// ---------------------------------------------------------------------------
// C06: structure-aware. [check, nblocks, (flags, len, data...)*, mut_sel0, mut_sel1]

pub fn c06_case(data: &[u8]) -> Option<c06::Case> {
    use crate::gen::xz::{XzCase, XzCaseBlock};
    if data.len() < 4 {
        return None;
    }
    let check = [0u8, 1, 4][data[0] as usize % 3];
    let nblocks = (data[1] % 3) as usize;
    let mut pos = 2;
    let mut blocks = Vec::new();
    for _ in 0..nblocks {
        if pos + 2 > data.len() {
            break;
        }
        let flags = data[pos];
        let len = 1 + (data[pos + 1] as usize % 48);
        pos += 2;
        let end = (pos + len).min(data.len());
        let mut content = data[pos..end].to_vec();
        if content.is_empty() {
            content.push(0x41);
        }
        pos = end;
        blocks.push(XzCaseBlock {
            has_packed: flags & 1 != 0,
            has_unpacked: flags & 2 != 0,
            extra_pad4: (flags >> 2) & 3,
            dict_extra: 0,
            chunks: vec![Chunk::Raw {
                reset_dict: true,
                data: content,
            }],
        });
    }
    let file = XzCase { check, blocks };
    // choose one sealed mutation from the table by the trailing selector bytes
    let spec = crate::gen::xz::build_spec(&file).ok()?;
    let valid = crate::refmodel::xz::write_xz(&spec, None);
    let all = c06::field_mutations(&spec, &valid);
    let sel = ((data[data.len() - 2] as usize) << 8) | data[data.len() - 1] as usize;
    let m = all[sel % all.len()].0.clone();
    Some(c06::Case {
        file,
        focus: Some(c06::Focus::Field(m)),
        sample: None,
    })
}

// ---------------------------------------------------------------------------

fn known() -> &'static Known {
    static K: std::sync::OnceLock<Known> = std::sync::OnceLock::new();
    K.get_or_init(Known::load)
}

/// Judge fuzzer bytes for `target`. Returns Some((sig, message, replay JSON)) on a violation
/// that is not a listed known finding.
pub fn judge_bytes(target: &str, data: &[u8]) -> Option<(String, String, serde_json::Value)> {
    crate::sut::install_panic_hook();
    let mut st = LocalStats::default();
    macro_rules! go {
        ($prop:expr, $case:expr) => {{
            let mut c = $case?;
            match crate::runner::judge_safe(&$prop, &mut c, &mut st) {
                Judgement::Violation { sig, msg } => {
                    if known().matches($prop.id(), &sig).is_some() {
                        None
                    } else {
                        Some((sig, msg, serde_json::to_value(&c).unwrap()))
                    }
                }
                _ => None,
            }
        }};
    }
    match target {
        "fz_stream_diff" => go!(c05::C05, c05_case(data)),
        "fz_total" => go!(c07::C07, c07_case(data)),
        "fz_reader_diff" => go!(c13::C13, c13_case(data)),
        "fz_stream_calls" => go!(c16::C16, c16_case(data)),
        "fz_xz_sealed" => go!(c06::C06, c06_case(data)),
        "fz_program" => go!(c01::C01, c01_case(data)),
        "fz_chunks" => go!(c02::C02, c02_case(data)),
        "fz_xz_valid" => go!(c03::C03, c03_case(data)),
        _ => None,
    }
}

/// Entry used by the libFuzzer targets: abort on violation.
pub fn fuzz_one(target: &str, data: &[u8]) {
    if let Some((sig, msg, _)) = judge_bytes(target, data) {
        eprintln!("FUZZ-VIOLATION target={} sig={} {}", target, sig, crate::sut::trunc(&msg, 800));
        std::process::abort();
    }
}
