//! C17 — Malformed LZMA2 framing is rejected.

use super::c02::{chunks_text, xz_wrap};
use crate::gen::lzma2::*;
use crate::refmodel::lzma2::{decode_lzma2, write_lzma2, write_lzma2_tweaked, Chunk, EncodedLzma2};
use crate::refmodel::model::Props;
use crate::refmodel::program::Op;
use crate::runner::*;
use crate::sut::{self, Io, ReaderKind, Verdict};
use proptest::prelude::*;
use serde::{Deserialize, Serialize};
use serde_json::json;

#[derive(Clone, Debug, PartialEq, Eq, Hash, Serialize, Deserialize)]
pub enum M {
    /// control byte of chunk c (c == number of chunks: the end byte) replaced
    Control { c: usize, val: u8 },
    Props { c: usize, val: u8 },
    /// compressed size field reduced by d
    PackedMinus { c: usize, d: usize },
    /// uncompressed size field of a compressed chunk set to val
    UnpackedSet { c: usize, val: usize },
    /// uncompressed chunk declared longer than everything that remains
    RawLonger { c: usize, val: usize },
    Trunc(usize),
    /// end marker appended to chunk c's payload, k more bytes declared than produced
    MarkerChunk { c: usize, k: u32 },
}

#[derive(Clone, Debug, PartialEq, Eq, Hash, Serialize, Deserialize)]
pub struct Case {
    pub chunks: Vec<Chunk>,
    pub in_xz: bool,
    pub focus: Option<M>,
}

pub struct C17;

fn put_unpacked(b: &mut [u8], off: usize, val: usize) {
    // compressed chunk: control low 5 bits + 2 bytes hold (val - 1)
    let v = val - 1;
    b[off] = (b[off] & 0xE0) | ((v >> 16) as u8 & 0x1F);
    b[off + 1] = (v >> 8) as u8;
    b[off + 2] = v as u8;
}

/// Apply a mutation to the encoded stream. None = not applicable.
fn mutate(enc: &EncodedLzma2, chunks: &[Chunk], m: &M) -> Option<Vec<u8>> {
    let mut b = enc.bytes.clone();
    match m {
        M::Control { c, val } => {
            let off = if *c < enc.layout.len() { enc.layout[*c].offset } else { b.len() - 1 };
            b[off] = *val;
        }
        M::Props { c, val } => {
            let l = enc.layout.get(*c)?;
            if !l.has_props {
                return None;
            }
            b[l.offset + 5] = *val;
        }
        M::PackedMinus { c, d } => {
            let l = enc.layout.get(*c)?;
            if !l.compressed || *d == 0 || *d >= l.payload_len {
                return None;
            }
            let v = l.payload_len - d - 1;
            b[l.offset + 3] = (v >> 8) as u8;
            b[l.offset + 4] = v as u8;
        }
        M::UnpackedSet { c, val } => {
            let l = enc.layout.get(*c)?;
            if !l.compressed || *val == 0 || *val > (1 << 21) || *val == l.unpacked {
                return None;
            }
            put_unpacked(&mut b, l.offset, *val);
        }
        M::RawLonger { c, val } => {
            let l = enc.layout.get(*c)?;
            if l.compressed || *val > 65536 {
                return None;
            }
            let remaining = b.len() - (l.offset + 3);
            if *val <= remaining {
                return None;
            }
            let v = val - 1;
            b[l.offset + 1] = (v >> 8) as u8;
            b[l.offset + 2] = v as u8;
        }
        M::Trunc(n) => {
            if *n >= b.len() {
                return None;
            }
            b.truncate(*n);
        }
        M::MarkerChunk { c, k } => {
            if !matches!(chunks.get(*c), Some(Chunk::Lzma { .. })) {
                return None;
            }
            let e = write_lzma2_tweaked(chunks, false, Some((*c, *k))).ok()?;
            return Some(e.bytes);
        }
    }
    Some(b)
}

fn name(m: &M) -> &'static str {
    match m {
        M::Control { .. } => "control byte 0x03..0x7F",
        M::Props { .. } => "props byte invalid",
        M::PackedMinus { .. } => "compressed size reduced",
        M::UnpackedSet { .. } => "uncompressed size changed",
        M::RawLonger { .. } => "uncompressed chunk shorter than declared",
        M::Trunc(_) => "input ends before end byte",
        M::MarkerChunk { .. } => "end marker inside chunk (fewer bytes than declared)",
    }
}

impl Property for C17 {
    type Abs = (Vec<AbsChunk>, bool, usize);
    type Case = Case;
    fn id(&self) -> &'static str {
        "C17"
    }
    fn cases(&self, tier: Tier) -> u32 {
        tier.pick(1_000, 10_000)
    }
    fn strategy(&self, _tier: Tier) -> BoxedStrategy<Self::Abs> {
        prop_oneof![
            12 => (abs_chunks(4, 14, 8, false), any::<bool>(), Just(4000usize)),
            2 => (abs_chunks(3, 30, 300, false), any::<bool>(), Just(400_000usize)),
            // a chunk with a compressed payload above 32 KiB / of exactly 64 KiB
            1 => (
                prop::collection::vec(
                    prop_oneof![1 => over_32k_packed_chunk().boxed(), 1 => exact_max_packed_chunk().boxed(), 2 => abs_chunk(6, 4).boxed()],
                    1..=2
                ),
                any::<bool>(),
                Just(400_000usize)
            ),
        ]
        .boxed()
    }
    fn concretize(&self, a: &Self::Abs) -> Case {
        Case {
            chunks: concretize_chunks(&a.0, L2Cfg { max_total: a.2, max_chunk_ops: 3000 }),
            in_xz: a.1,
            focus: None,
        }
    }
    fn rule(&self) -> String {
        "proptest generates a valid LZMA2 chunk sequence (incl. compressed chunks of more than 64 KiB output); per stream the check ENUMERATES, for every chunk position: the control byte replaced by each of 0x03..=0x7F (also the end byte); the property byte replaced by each of 225..=255 and by every value < 225 with lc+lp > 4; the compressed-size field reduced by d in {1,2,3,5,packed/2,packed-5,packed-1}; the uncompressed-size field set strictly inside each copy's span of the chunk (overshoot) and to true+k, k in {1,2,7,100,65536, up to the 2 MiB maximum}; an end marker appended to the chunk's payload while declaring k more bytes than produced; an uncompressed chunk declared longer than everything that remains; truncation of the stream at every offset (every 7th for streams over 2000 bytes). Oracle: Err from lzma2_decompress (and from xz_decompress for the stream wrapped in a block) - constructively for everything except 'true+k', where the reference LZMA2 decoder decides whether the declared size can be reached within the declared compressed size (a few zero-cost literals can be decodable without further input). Non-trivial = the mutated chunk is compressed or not the first; distinct = (stream hash, mutation).".into()
    }
    fn required_classes(&self, tier: Tier) -> Vec<(&'static str, u64)> {
        let k = tier.pick(1, 10);
        vec![
            ("mut:control byte 0x03..0x7F", 100_000 * k),
            ("mut:props byte invalid", 20_000 * k),
            ("mut:compressed size reduced", 3000 * k),
            ("mut:uncompressed size changed", 5000 * k),
            ("mut:uncompressed chunk shorter than declared", 500 * k),
            ("mut:input ends before end byte", 50_000 * k),
            ("mut:end marker inside chunk (fewer bytes than declared)", 1000 * k),
            ("mutated chunk has > 64 KiB output", 100 * k),
            ("mutated chunk has > 32 KiB payload", 100 * k),
            ("also through a fragmenting reader", 100_000 * k),
            ("unpacked+k decodable without more input (not asserted)", 0),
        ]
    }

    fn judge(&self, c: &mut Case, st: &mut LocalStats) -> Judgement {
        if c.chunks.is_empty() {
            return Judgement::Pass;
        }
        let enc = match write_lzma2(&c.chunks, true) {
            Ok(e) => e,
            Err(e) => return Judgement::HarnessBug(e),
        };
        let io = Io::default();
        let run_with = |bytes: &[u8], rk: &ReaderKind| -> sut::Run {
            if c.in_xz {
                let f = xz_wrap(bytes, &enc.output, 1);
                sut::xz_decompress(&f, rk, &io)
            } else {
                sut::lzma2_decompress(bytes, rk, &io)
            }
        };
        let run = |bytes: &[u8]| -> sut::Run { run_with(bytes, &ReaderKind::Slice) };
        // fragmenting readers for the second opinion on each mutation
        let frag = [
            ReaderKind::BufReader { cap: 512, reads: vec![] },
            ReaderKind::Chunky { pattern: vec![1], stops: vec![] },
            ReaderKind::BufReader { cap: 8192, reads: vec![] },
        ];
        // precondition: the valid stream decodes
        let base = run(&enc.bytes);
        if !base.verdict.is_ok() || base.out != enc.output {
            return Judgement::violation("valid-stream-not-decoded", format!("{} [{}]", base.verdict.brief(), chunks_text(&c.chunks, 6)));
        }
        let sh = hash64(&(&c.chunks, c.in_xz));
        st.sample(if c.in_xz { "in .xz" } else { "raw lzma2" }, || {
            json!({"chunks": chunks_text(&c.chunks, 5), "stream": hex_prefix(&enc.bytes, 40), "len": enc.bytes.len()})
        });
        let mut muts: Vec<M> = Vec::new();
        if let Some(f) = &c.focus {
            muts.push(f.clone());
        } else {
            let nchunks = enc.layout.len();
            for ci in 0..=nchunks {
                for val in 0x03..=0x7Fu8 {
                    muts.push(M::Control { c: ci, val });
                }
            }
            for (ci, l) in enc.layout.iter().enumerate() {
                if l.has_props {
                    for val in 0..=255u8 {
                        let bad = match Props::from_byte(val) {
                            None => true,
                            Some(p) => p.lc + p.lp > 4,
                        };
                        if bad {
                            muts.push(M::Props { c: ci, val });
                        }
                    }
                }
                if l.compressed {
                    for d in [1usize, 2, 3, 5, 100, 1000, l.payload_len / 2, l.payload_len.saturating_sub(5), l.payload_len - 1, l.payload_len.saturating_sub(0x8000), l.payload_len.saturating_sub(0x7FFF)] {
                        muts.push(M::PackedMinus { c: ci, d });
                    }
                    // inside each copy's span
                    if let Chunk::Lzma { ops, .. } = &c.chunks[ci] {
                        let mut prev = l.produced_before;
                        for (oi, op) in ops.iter().enumerate() {
                            let p = l.table[oi].produced as usize;
                            if matches!(op, Op::Match { .. } | Op::Rep { .. }) && p - prev >= 2 {
                                muts.push(M::UnpackedSet { c: ci, val: prev + 1 - l.produced_before });
                                muts.push(M::UnpackedSet { c: ci, val: p - 1 - l.produced_before });
                            }
                            prev = p;
                        }
                    }
                    for k in [1usize, 2, 7, 100, 65536, (1 << 21) - l.unpacked] {
                        if k > 0 {
                            muts.push(M::UnpackedSet { c: ci, val: l.unpacked + k });
                        }
                    }
                    for k in [1u32, 2, 50] {
                        muts.push(M::MarkerChunk { c: ci, k });
                    }
                } else {
                    let remaining = enc.bytes.len() - (l.offset + 3);
                    for val in [remaining + 1, remaining + 2, 65536] {
                        muts.push(M::RawLonger { c: ci, val });
                    }
                }
            }
            let step = if enc.bytes.len() > 2000 { (enc.bytes.len() / 400).max(7) } else { 1 };
            let mut t = 0;
            while t < enc.bytes.len() {
                muts.push(M::Trunc(t));
                t += step;
            }
            muts.push(M::Trunc(enc.bytes.len() - 1));
        }
        for m in muts {
            let bytes = match mutate(&enc, &c.chunks, &m) {
                Some(b) => b,
                None => continue,
            };
            if bytes == enc.bytes {
                continue;
            }
            // which chunk
            let ci = match &m {
                M::Control { c, .. } | M::Props { c, .. } | M::PackedMinus { c, .. } | M::UnpackedSet { c, .. } | M::RawLonger { c, .. } | M::MarkerChunk { c, .. } => *c,
                M::Trunc(_) => usize::MAX,
            };
            // oracle
            let must_reject = match &m {
                M::UnpackedSet { c: cc, val } if *val > enc.layout[*cc].unpacked => {
                    match decode_lzma2(&bytes, false, false, enc.output.len() + (4 << 20)) {
                        Ok(_) => {
                            st.class("unpacked+k decodable without more input (not asserted)");
                            false
                        }
                        Err(_) => true,
                    }
                }
                _ => true,
            };
            if !must_reject {
                continue;
            }
            st.eval();
            st.class(&format!("mut:{}", name(&m)));
            if ci != usize::MAX && ci < enc.layout.len() && enc.layout[ci].unpacked > 65536 {
                st.class("mutated chunk has > 64 KiB output");
            }
            if ci != usize::MAX && ci < enc.layout.len() && enc.layout[ci].compressed && enc.layout[ci].payload_len > 32768 {
                st.class("mutated chunk has > 32 KiB payload");
            }
            let compressed = ci != usize::MAX && ci < enc.layout.len() && enc.layout[ci].compressed;
            if compressed || (ci != usize::MAX && ci >= 1) || matches!(m, M::Trunc(t) if t > 0) {
                st.nontrivial(&(sh, &m));
            }
            let mut r = run(&bytes);
            if r.verdict.is_err() && (bytes.len() < 3000 || hash64(&(&m, 7u8)) % 8 == 0) {
                // the rejection must not depend on how much of the chunk the reader shows at once
                st.eval();
                st.class("also through a fragmenting reader");
                let rk = &frag[(hash64(&m) % 3) as usize];
                r = run_with(&bytes, rk);
            }
            match &r.verdict {
                Verdict::Err(_) => {}
                Verdict::Ok => {
                    c.focus = Some(m.clone());
                    return Judgement::violation(
                        format!("accepted:{}", name(&m).replace(' ', "-")),
                        format!(
                            "malformed framing accepted ({}, {:?}){}: chunks [{}] ; mutated stream {} ; output {} bytes (valid stream gives {})",
                            name(&m),
                            m,
                            if c.in_xz { " inside .xz" } else { "" },
                            chunks_text(&c.chunks, 6),
                            hex_prefix(&bytes, 48),
                            r.out.len(),
                            enc.output.len()
                        ),
                    );
                }
                Verdict::Panic(p) => {
                    c.focus = Some(m.clone());
                    return Judgement::violation(format!("panic:{}", sut::panic_site(p)), format!("{:?}: {} [{}]", m, p, chunks_text(&c.chunks, 6)));
                }
            }
        }
        Judgement::Pass
    }
}
