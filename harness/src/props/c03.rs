//! C03 — XZ container decoding is exact for every well-formed supported file.

use super::c02::chunks_text;
use super::common::*;
use crate::gen::xz::*;
use crate::refmodel::xz::{parse_strict, vli_len, write_xz, XzFile, XzSpec};
use crate::runner::*;
use crate::sut::{self, Io, ReaderKind};
use proptest::prelude::*;
use serde_json::json;

pub struct C03;

pub fn xz_text(c: &XzCase) -> String {
    let mut s = format!("check={} blocks={}", c.check, c.blocks.len());
    for (i, b) in c.blocks.iter().enumerate().take(4) {
        s.push_str(&format!(
            " | #{} packed_field={} unpacked_field={} extra_pad4={} [{}]",
            i,
            b.has_packed,
            b.has_unpacked,
            b.extra_pad4,
            chunks_text(&b.chunks, 3)
        ));
    }
    s
}

/// Build, cross-check with the strict parser and liblzma. Err = harness bug text.
pub fn build_valid(c: &XzCase, st: &mut LocalStats) -> Result<(XzSpec, XzFile, Vec<u8>), String> {
    let spec = build_spec(c).map_err(|e| format!("illegal chunks: {}", e))?;
    let file = write_xz(&spec, None);
    let mut expected = Vec::new();
    for (b, cb) in spec.blocks.iter().zip(&c.blocks) {
        let want = super::c02::interpret_chunks(&cb.chunks)?;
        if want != b.content {
            return Err("lzma2 writer history != interpreter".into());
        }
        expected.extend_from_slice(&b.content);
    }
    match parse_strict(&file.bytes, expected.len() + (1 << 20)) {
        Ok(r) => {
            if r.out != expected {
                return Err("strict parser output differs".into());
            }
        }
        Err(e) => return Err(format!("strict parser rejects generated file: {:?}", e)),
    }
    // liblzma allocates the announced dictionary up front: consult it only for
    // dictionary properties up to 64 MiB
    #[cfg(feature = "liblzma")]
    if spec.blocks.iter().all(|b| b.dict_prop <= 30) {
        let lib = crate::ffi_liblzma::xz_stream(&file.bytes, expected.len() + (1 << 20));
        if !lib.ok() || lib.out != expected || lib.consumed != file.bytes.len() {
            return Err(format!(
                "liblzma stream decoder disagrees: ret={} consumed={}/{} {} [{}]",
                lib.ret,
                lib.consumed,
                file.bytes.len(),
                first_diff(&lib.out, &expected),
                xz_text(c)
            ));
        }
        st.class("liblzma-second-opinion");
    }
    let _ = st;
    Ok((spec, file, expected))
}

pub fn classify_xz(c: &XzCase, spec: &XzSpec, file: &XzFile, st: &mut LocalStats) {
    st.class(match c.blocks.len() {
        0 => "blocks:0",
        1 => "blocks:1",
        _ => "blocks:>=2",
    });
    if c.blocks.len() >= 128 {
        st.class("blocks:>=128 (2-byte record count)");
    }
    st.class(match c.check {
        0 => "check:none",
        1 => "check:crc32",
        _ => "check:crc64",
    });
    for (i, b) in c.blocks.iter().enumerate() {
        st.class(match (b.has_packed, b.has_unpacked) {
            (false, false) => "sizefields:none",
            (true, false) => "sizefields:packed",
            (false, true) => "sizefields:unpacked",
            (true, true) => "sizefields:both",
        });
        let bl = &file.layout.blocks[i];
        if bl.header_len > 12 {
            st.class("header:size byte > 2");
        }
        if bl.header_len >= 260 {
            st.class("header:size byte >= 0x40");
        }
        if bl.header_len == 1024 {
            st.class("header:max size 1024");
        }
        st.class(&format!("blockpad:{}", bl.pad_len));
        let unpadded = (bl.header_len + bl.payload_len + bl.check_len) as u64;
        st.class(&format!("vli:unpadded {}B", vli_len(unpadded)));
        st.class(&format!("vli:unpacked {}B", vli_len(spec.blocks[i].content.len() as u64)));
        if spec.blocks[i].content.is_empty() {
            st.class("block:empty content");
        }
        if spec.blocks[i].dict_prop > 30 {
            st.class("lzma2 dict property > 30");
        }
        if spec.blocks[i].dict_prop == 40 {
            st.class("lzma2 dict property == 40 (4 GiB - 1)");
        }
    }
    st.class(&format!("indexpad:{}", file.layout.index_pad));
}

impl Property for C03 {
    type Abs = AbsXz;
    type Case = XzCase;
    fn id(&self) -> &'static str {
        "C03"
    }
    fn cases(&self, tier: Tier) -> u32 {
        tier.pick(60_000, 600_000)
    }
    fn strategy(&self, tier: Tier) -> BoxedStrategy<AbsXz> {
        match tier {
            Tier::Quick => prop_oneof![
                24 => abs_xz(5, 3, 20, 300_000),
                2 => abs_xz(2, 3, 20, 3 << 20),
                1 => abs_xz_many_blocks(),
            ]
            .boxed(),
            Tier::Thorough => prop_oneof![
                24 => abs_xz(6, 4, 30, 300_000),
                4 => abs_xz(40, 2, 10, 100_000),
                2 => abs_xz(3, 3, 20, 3 << 20),
                1 => abs_xz_many_blocks(),
            ]
            .boxed(),
        }
    }
    fn concretize(&self, a: &AbsXz) -> XzCase {
        concretize_xz(a)
    }
    fn rule(&self) -> String {
        "proptest generates single-stream .xz files: 0..=5 blocks (thorough: up to 40) x check {None,CRC32,CRC64} x presence of the optional compressed/uncompressed size fields x block header padding (header size byte up to 0xFF) x generated LZMA2 payloads (all chunk kinds); the reference writer serialises them with minimal multibyte integers; liblzma's stream decoder and the harness' strict parser must accept each file and agree on the content before lzma-rs is asked. Non-trivial = at least one block with non-empty content; distinct = SipHash of the concrete file description.".into()
    }
    fn assumptions(&self) -> Vec<String> {
        vec!["multibyte integers of 5-9 bytes cannot occur in a valid file that fits in memory and are exercised only on the rejecting side (C06/C07); 4-byte integers occur only in the large-block sub-generator".into()]
    }
    fn required_classes(&self, tier: Tier) -> Vec<(&'static str, u64)> {
        let m = tier.pick(1, 10);
        vec![
            ("blocks:0", 200 * m),
            ("blocks:>=2", 2000 * m),
            ("check:none", 1000 * m),
            ("check:crc32", 1000 * m),
            ("check:crc64", 1000 * m),
            ("sizefields:both", 1000 * m),
            ("sizefields:packed", 1000 * m),
            ("sizefields:unpacked", 1000 * m),
            ("header:size byte > 2", 1000 * m),
            ("header:size byte >= 0x40", 100 * m),
            ("blockpad:0", 500 * m),
            ("blockpad:1", 500 * m),
            ("blockpad:2", 500 * m),
            ("blockpad:3", 500 * m),
            ("indexpad:0", 500 * m),
            ("indexpad:1", 500 * m),
            ("indexpad:2", 500 * m),
            ("indexpad:3", 500 * m),
            ("vli:unpadded 3B", 20 * m),
            ("blocks:>=128 (2-byte record count)", 300 * m),
            ("lzma2 dict property == 40 (4 GiB - 1)", 1000 * m),
            ("vli:unpacked 3B", 20 * m),
        ]
    }

    fn judge(&self, c: &mut XzCase, st: &mut LocalStats) -> Judgement {
        let (spec, file, expected) = match build_valid(c, st) {
            Ok(x) => x,
            Err(e) => return Judgement::HarnessBug(e),
        };
        classify_xz(c, &spec, &file, st);
        if !expected.is_empty() {
            st.nontrivial(c);
            st.sample(if c.blocks.len() > 1 { "multi-block" } else { "single-block" }, || {
                json!({"file": xz_text(c), "bytes": hex_prefix(&file.bytes, 48), "file_len": file.bytes.len(), "content_len": expected.len()})
            });
        }
        st.eval();
        let r = sut::xz_decompress(&file.bytes, &ReaderKind::Slice, &Io::default());
        if !r.verdict.is_ok() {
            return Judgement::violation(
                "reject-valid",
                format!(
                    "well-formed .xz rejected: {} ; file: {} ; bytes {}",
                    r.verdict.brief(),
                    xz_text(c),
                    hex_prefix(&file.bytes, 64)
                ),
            );
        }
        if r.out != expected {
            return Judgement::violation(
                "wrong-bytes",
                format!("output differs: {} ; file: {}", first_diff(&r.out, &expected), xz_text(c)),
            );
        }
        // the same well-formed file through fragmenting readers (derived from the file hash)
        let h = hash64(c);
        let readers = [
            ReaderKind::Chunky { pattern: vec![1 + (h % 13) as usize, 1 + ((h >> 8) % 200) as usize], stops: vec![] },
            ReaderKind::BufReader { cap: 8 + ((h >> 20) % 120) as usize, reads: vec![] },
            ReaderKind::BufReader { cap: 8192, reads: vec![] },
        ];
        let rk = &readers[(h >> 40) as usize % 3];
        st.eval();
        st.class("also decoded through a fragmenting reader");
        let r2 = sut::xz_decompress(&file.bytes, rk, &Io::default());
        if !r2.verdict.is_ok() || r2.out != expected {
            return Judgement::violation(
                if r2.verdict.is_ok() { "wrong-bytes:fragmented-reader" } else { "reject-valid:fragmented-reader" },
                format!("well-formed .xz through {:?}: {} ; {} ; file: {}", rk, r2.verdict.brief(), first_diff(&r2.out, &expected), xz_text(c)),
            );
        }
        Judgement::Pass
    }
}
