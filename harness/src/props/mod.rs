//! One oracle + classifier per property.
pub mod common;
pub mod c01;
