//! One oracle + classifier per property.
pub mod common;
pub mod c01;
pub mod c02;
pub mod c03;
pub mod c04;
pub mod c05;
pub mod worst;
pub mod c06;
pub mod c08;
pub mod c09;
pub mod c10;
pub mod c11;
pub mod c13;
pub mod c12;
pub mod c14;
pub mod c15;
pub mod c16;
