//! C14 — A reset raw decoder is indistinguishable from a new one.

use crate::gen::bytes::{apply_muts, abs_muts, hexser, AbsMut};
use crate::gen::lzma2::*;
use crate::gen::program::*;
use crate::iowrap::SinkState;
use crate::refmodel::enc::encode_lzma;
use crate::refmodel::lzma2::{write_lzma2, Chunk, Reset};
use crate::refmodel::model::Props;
use crate::runner::*;
use crate::sut::{self, Verdict};
use lzma_rs::decompress::raw::{Lzma2Decoder, LzmaDecoder, LzmaParams};
use proptest::prelude::*;
use serde::{Deserialize, Serialize};
use serde_json::json;

#[derive(Clone, Debug, PartialEq, Eq, Hash, Serialize, Deserialize)]
pub enum HOp {
    Decompress {
        #[serde(with = "hexser")]
        bytes: Vec<u8>,
        /// classification: did the (undamaged) stream contain copies / what kind of damage
        note: String,
    },
    /// LzmaDecoder::reset(None) / Lzma2Decoder::reset()
    Reset,
    /// LzmaDecoder::reset(Some(x))
    ResetSize(Option<u64>),
    /// n consecutive reset(None) / reset() calls
    ResetMany(u32),
}

#[derive(Clone, Debug, PartialEq, Eq, Hash, Serialize, Deserialize)]
pub enum Kind {
    Lzma { props: Props, dict: u32, init_size: Option<u64> },
    Lzma2,
}

#[derive(Clone, Debug, PartialEq, Eq, Hash, Serialize, Deserialize)]
pub struct Case {
    pub kind: Kind,
    pub ops: Vec<HOp>,
}

#[derive(Clone, Debug)]
pub struct AbsStep {
    /// 0: no reset, 1: Reset, 2: ResetSize(None), 3: ResetSize(Some(L)), 4: ResetSize(Some(L+-1)), 5: two resets
    reset: u8,
    prog: Vec<AbsOp>,
    chunks: Vec<AbsChunk>,
    marker: bool,
    /// 0 none, 1 truncate, 2 byte mutations
    damage: u8,
    muts: Vec<AbsMut>,
    trunc: u16,
    /// LZMA2: strip the first chunk's reset (stream that relies on the initial 0/0/0 properties)
    strip_first_reset: bool,
}

#[derive(Clone, Debug)]
pub struct Abs {
    lzma2: bool,
    props: Props,
    dict: u32,
    init_sel: u8,
    steps: Vec<AbsStep>,
}

pub struct C14;

fn step_strategy() -> impl Strategy<Value = AbsStep> {
    (
        prop_oneof![2 => Just(0u8), 4 => Just(1u8), 1 => Just(2u8), 3 => Just(3u8), 1 => Just(4u8), 1 => Just(5u8)],
        abs_program(16, 6),
        abs_chunks(3, 8, 6, false),
        any::<bool>(),
        prop_oneof![5 => Just(0u8), 2 => Just(1u8), 2 => Just(2u8)],
        abs_muts(2),
        any::<u16>(),
        prop::bool::weighted(0.25),
    )
        .prop_map(|(reset, prog, chunks, marker, damage, muts, trunc, strip_first_reset)| AbsStep {
            reset,
            prog,
            chunks,
            marker,
            damage,
            muts,
            trunc,
            strip_first_reset,
        })
}

/// LZMA2 stream whose first chunk carries no reset/props: encoded with props
/// 0/0/0 and a fresh state, control byte rewritten to 0x80|size bits.
fn strip_reset(chunks: &[Chunk]) -> Option<Vec<u8>> {
    let mut ch = chunks.to_vec();
    match ch.first_mut() {
        Some(Chunk::Lzma { reset, props, .. }) => {
            *reset = Reset::All;
            *props = Props::new(0, 0, 0);
        }
        _ => return None,
    }
    // later chunks may change props; fine
    let enc = write_lzma2(&ch, false).ok()?;
    let mut b = enc.bytes;
    // first chunk header: control, 2 size, 2 size, props
    b[0] = 0x80 | (b[0] & 0x1F);
    b.remove(5);
    Some(b)
}

impl Property for C14 {
    type Abs = Abs;
    type Case = Case;
    fn id(&self) -> &'static str {
        "C14"
    }
    fn cases(&self, tier: Tier) -> u32 {
        tier.pick(120_000, 1_200_000)
    }
    fn strategy(&self, _tier: Tier) -> BoxedStrategy<Abs> {
        (
            any::<bool>(),
            props_any(),
            dict_raw(),
            any::<u8>(),
            prop::collection::vec(step_strategy(), 1..=8),
        )
            .prop_map(|(lzma2, props, dict, init_sel, steps)| Abs {
                lzma2,
                props,
                dict,
                init_sel,
                steps,
            })
            .boxed()
    }
    fn concretize(&self, a: &Abs) -> Case {
        let mut ops = Vec::new();
        if a.lzma2 {
            for s in &a.steps {
                match s.reset {
                    0 => {}
                    5 => {
                        ops.push(HOp::Reset);
                        ops.push(HOp::Reset);
                    }
                    _ => ops.push(HOp::Reset),
                }
                let chunks = concretize_chunks(&s.chunks, L2Cfg { max_total: 5000, max_chunk_ops: 500 });
                if chunks.is_empty() {
                    continue;
                }
                let has_copy = chunks.iter().any(|c| matches!(c, Chunk::Lzma { ops, .. } if ops.iter().any(|o| o.is_copy())));
                let mut note = String::from(if has_copy { "valid+copies" } else { "valid" });
                let mut bytes = if s.strip_first_reset {
                    match strip_reset(&chunks) {
                        Some(b) => {
                            note.push_str("+no-reset-first-chunk");
                            b
                        }
                        None => write_lzma2(&chunks, false).map(|e| e.bytes).unwrap_or_default(),
                    }
                } else {
                    write_lzma2(&chunks, false).map(|e| e.bytes).unwrap_or_default()
                };
                match s.damage {
                    1 => {
                        let t = pick(s.trunc, 0, bytes.len() as u64) as usize;
                        bytes.truncate(t);
                        note = "truncated".into();
                    }
                    2 if !s.muts.is_empty() => {
                        bytes = apply_muts(&bytes, &s.muts).0;
                        note = "corrupt".into();
                    }
                    _ => {}
                }
                ops.push(HOp::Decompress { bytes, note });
            }
            Case { kind: Kind::Lzma2, ops }
        } else {
            let init_size = match a.init_sel % 7 {
                0 | 1 => None,
                2 | 3 => Some((a.init_sel as u64) / 3),
                4 => Some(u64::MAX),
                _ => Some(7),
            };
            let mut eff = init_size;
            for s in &a.steps {
                let mut prog = concretize(&s.prog, ConcCfg { dict: a.dict as u64, max_out: 3000, max_ops: 400 });
                // when this step does not re-specify the size and a size is in effect,
                // mostly shape the stream to that size (so that a stale size shows)
                if matches!(s.reset, 0 | 1 | 5) && s.trunc % 4 != 3 {
                    if let Some(want) = eff {
                        if want <= 3000 {
                            prog = concretize(&s.prog, ConcCfg { dict: a.dict as u64, max_out: want as usize, max_ops: 400 });
                            let mut have: u64 = prog.iter().map(|o| op_out_len(o) as u64).sum();
                            while have < want {
                                prog.push(crate::refmodel::program::Op::Lit((have as u8).wrapping_mul(29)));
                                have += 1;
                            }
                        }
                    }
                }
                let l: u64 = prog.iter().map(|o| op_out_len(o) as u64).sum();
                match s.reset {
                    0 => {}
                    1 => ops.push(HOp::Reset),
                    2 => {
                        ops.push(HOp::ResetSize(None));
                        eff = None;
                    }
                    3 => {
                        ops.push(HOp::ResetSize(Some(l)));
                        eff = Some(l);
                    }
                    4 => {
                        let v = match s.trunc % 5 {
                            0 | 1 => l + 1,
                            2 => l.saturating_sub(1),
                            3 => u64::MAX,
                            _ => u64::MAX - 1,
                        };
                        ops.push(HOp::ResetSize(Some(v)));
                        eff = Some(v);
                    }
                    _ => {
                        ops.push(HOp::Reset);
                        ops.push(HOp::Reset);
                    }
                }
                // encode with a marker when no size is in effect (mostly)
                let marker = if eff.is_none() { s.marker || s.trunc % 4 != 0 } else { s.marker && s.trunc % 4 == 0 };
                let enc = encode_lzma(a.props, &prog, if marker { Some(2) } else { None });
                let mut bytes = enc.payload;
                let mut note = String::from(if prog.iter().any(|o| o.is_copy()) { "valid+copies" } else { "valid" });
                match s.damage {
                    1 => {
                        let t = pick(s.trunc, 0, bytes.len() as u64) as usize;
                        bytes.truncate(t);
                        note = "truncated".into();
                    }
                    2 if !s.muts.is_empty() => {
                        bytes = apply_muts(&bytes, &s.muts).0;
                        note = "corrupt".into();
                    }
                    _ => {}
                }
                ops.push(HOp::Decompress { bytes, note });
            }
            Case {
                kind: Kind::Lzma {
                    props: a.props,
                    dict: a.dict,
                    init_size,
                },
                ops,
            }
        }
    }
    fn fixed_cases(&self, _tier: Tier) -> Vec<Case> {
        // reuse counts around 2^8 and 2^16, with literal-heavy streams for large lc+lp
        let mut v = Vec::new();
        let mk_stream = |props: Props, seed: u8, n: usize| -> Vec<u8> {
            let ops: Vec<crate::refmodel::program::Op> = (0..n)
                .map(|i| crate::refmodel::program::Op::Lit(((i as u8).wrapping_mul(seed) >> 1) ^ seed))
                .collect();
            encode_lzma(props, &ops, Some(2)).payload
        };
        for props in [Props::new(5, 0, 2), Props::new(8, 4, 0), Props::new(3, 0, 2)] {
            for n in [255u32, 256, 257, 65535, 65536, 65537] {
                // a reset of the lc+lp = 12 tables touches 6 MiB: keep that to the small counts
                if props.lc + props.lp > 8 && n > 1000 {
                    continue;
                }
                let a = mk_stream(props, 37, 300);
                let b = mk_stream(props, 11, 40);
                let mut ops = vec![
                    HOp::Decompress { bytes: a.clone(), note: "valid".into() },
                    HOp::ResetMany(n / 2),
                    HOp::Decompress { bytes: b.clone(), note: "valid".into() },
                    HOp::ResetMany(n - n / 2),
                    HOp::Decompress { bytes: a.clone(), note: "valid".into() },
                ];
                if n == 65536 {
                    ops.insert(1, HOp::Decompress { bytes: b.clone(), note: "valid".into() });
                }
                v.push(Case { kind: Kind::Lzma { props, dict: 1 << 16, init_size: None }, ops });
                // all resets in one go
                v.push(Case {
                    kind: Kind::Lzma { props, dict: 1 << 16, init_size: None },
                    ops: vec![
                        HOp::Decompress { bytes: a.clone(), note: "valid".into() },
                        HOp::ResetMany(n),
                        HOp::Decompress { bytes: a.clone(), note: "valid".into() },
                    ],
                });
            }
        }
        v
    }
    fn rule(&self) -> String {
        "proptest generates operation histories (1..=8 steps) over ONE raw decoder object: LzmaDecoder (any lc/lp/pb, dictionary 1..=2^23, initial size None/Some) with ops {decompress(valid stream | truncated | byte-mutated), reset(None), reset(Some(None)), reset(Some(Some(next length))), reset(Some(Some(next length +-1))), double reset}, and Lzma2Decoder with ops {decompress(valid chunk sequence with changing lc/lp/pb | truncated | corrupt | a stream whose first chunk carries no reset and relies on the initial 0/0/0 properties), reset}. The harness tracks the effective size ('last specified') and, for every decompress that follows at least one reset since the previous decompress, runs the same bytes through a freshly constructed decoder with the same parameters and effective size. Oracle: same verdict and byte-identical output. Non-trivial = the compared decompress is preceded by a decompress that moved state (decoded copies, failed half-way, or changed properties); distinct = SipHash of the history.".into()
    }
    fn required_classes(&self, tier: Tier) -> Vec<(&'static str, u64)> {
        let k = tier.pick(1, 10);
        vec![
            ("compared:after valid+copies", 3000 * k),
            ("compared:after truncated", 1500 * k),
            ("compared:after corrupt", 1500 * k),
            ("compared:lzma", 5000 * k),
            ("compared:lzma2", 5000 * k),
            ("compared stream:no-reset-first-chunk", 500 * k),
            ("reset:size re-specified", 3000 * k),
            ("fresh verdict:Ok", 5000 * k),
            ("fresh verdict:Err", 3000 * k),
            ("reuse cycles >= 3", 1000 * k),
            (">= 65536 resets between two decodes", 3),
        ]
    }

    fn judge(&self, c: &mut Case, st: &mut LocalStats) -> Judgement {
        let is_l2 = matches!(c.kind, Kind::Lzma2);
        let mut results: Vec<(usize, Verdict, Vec<u8>, Verdict, Vec<u8>, Option<u64>, String)> = Vec::new();
        let run = sut::guarded(|| {
            let mut eff: Option<u64> = None;
            let mut dec1: Option<LzmaDecoder> = None;
            let mut dec2: Option<Lzma2Decoder> = None;
            match &c.kind {
                Kind::Lzma { props, dict, init_size } => {
                    eff = *init_size;
                    dec1 = Some(LzmaDecoder::new(LzmaParams::new(sut::lzma_props(*props), *dict, *init_size), None).expect("new"));
                }
                Kind::Lzma2 => dec2 = Some(Lzma2Decoder::new()),
            }
            let mut resets_since = 0usize;
            let mut prev_note: Option<String> = None;
            for (i, op) in c.ops.iter().enumerate() {
                match op {
                    HOp::Reset => {
                        if let Some(d) = dec1.as_mut() {
                            d.reset(None)
                        }
                        if let Some(d) = dec2.as_mut() {
                            d.reset()
                        }
                        resets_since += 1;
                    }
                    HOp::ResetMany(n) => {
                        for _ in 0..*n {
                            if let Some(d) = dec1.as_mut() {
                                d.reset(None)
                            }
                            if let Some(d) = dec2.as_mut() {
                                d.reset()
                            }
                        }
                        resets_since += *n as usize;
                    }
                    HOp::ResetSize(x) => {
                        if let Some(d) = dec1.as_mut() {
                            d.reset(Some(*x));
                            eff = *x;
                        }
                        if let Some(d) = dec2.as_mut() {
                            d.reset()
                        }
                        resets_since += 1;
                    }
                    HOp::Decompress { bytes, note } => {
                        let mut sink = SinkState::new(Default::default());
                        let mut rd: &[u8] = bytes;
                        let res = if let Some(d) = dec1.as_mut() {
                            d.decompress(&mut rd, &mut sink)
                        } else {
                            dec2.as_mut().unwrap().decompress(&mut rd, &mut sink)
                        };
                        let v = match res {
                            Ok(()) => Verdict::Ok,
                            Err(e) => Verdict::Err(format!("{:?}", e)),
                        };
                        if resets_since > 0 && prev_note.is_some() {
                            // fresh decoder on the same bytes
                            let mut fsink = SinkState::new(Default::default());
                            let mut rd: &[u8] = bytes;
                            let fres = match &c.kind {
                                Kind::Lzma { props, dict, .. } => {
                                    LzmaDecoder::new(LzmaParams::new(sut::lzma_props(*props), *dict, eff), None)
                                        .and_then(|mut d| d.decompress(&mut rd, &mut fsink))
                                }
                                Kind::Lzma2 => Lzma2Decoder::new().decompress(&mut rd, &mut fsink),
                            };
                            let fv = match fres {
                                Ok(()) => Verdict::Ok,
                                Err(e) => Verdict::Err(format!("{:?}", e)),
                            };
                            results.push((
                                i,
                                v.clone(),
                                sink.data.clone(),
                                fv,
                                fsink.data,
                                eff,
                                format!("{}|{}", prev_note.clone().unwrap(), note),
                            ));
                        }
                        prev_note = Some(note.clone());
                        resets_since = 0;
                    }
                }
            }
        });
        if let Err(p) = run {
            return Judgement::violation(format!("panic:{}", sut::panic_site(&p)), format!("history panics: {} ; {:?}", p, summarize(c)));
        }
        st.evals(results.len() as u64 * 2);
        if results.len() >= 3 {
            st.class("reuse cycles >= 3");
        }
        if c.ops.iter().any(|o| matches!(o, HOp::ResetMany(n) if *n >= 65536)) {
            st.class(">= 65536 resets between two decodes");
        }
        if c.ops.iter().any(|o| matches!(o, HOp::ResetSize(_))) && !is_l2 {
            st.class("reset:size re-specified");
        }
        let mut nontrivial = false;
        for (i, v, out, fv, fout, eff, notes) in &results {
            let (prev, cur) = notes.split_once('|').unwrap();
            st.class(&format!("compared:after {}", prev));
            st.class(if is_l2 { "compared:lzma2" } else { "compared:lzma" });
            if cur.contains("no-reset-first-chunk") {
                st.class("compared stream:no-reset-first-chunk");
            }
            st.class(&format!("fresh verdict:{}", fv.kind()));
            if prev != "valid" {
                nontrivial = true;
            }
            if v.kind() != fv.kind() || out != fout {
                return Judgement::violation(
                    if v.kind() != fv.kind() { "verdict-differs" } else { "output-differs" },
                    format!(
                        "decompress at step {} after reset (effective size {:?}; previous stream: {}; this stream: {}): reused decoder -> {} ({}B), fresh decoder -> {} ({}B) ; history {:?}",
                        i,
                        eff,
                        prev,
                        cur,
                        v.brief(),
                        out.len(),
                        fv.brief(),
                        fout.len(),
                        summarize(c)
                    ),
                );
            }
        }
        if nontrivial {
            st.nontrivial(c);
            st.sample(if is_l2 { "lzma2 history" } else { "lzma history" }, || json!({"kind": format!("{:?}", c.kind), "ops": summarize(c)}));
        }
        Judgement::Pass
    }
}

fn summarize(c: &Case) -> Vec<String> {
    c.ops
        .iter()
        .map(|o| match o {
            HOp::Decompress { bytes, note } => format!("decompress({}B {}: {})", bytes.len(), note, hex_prefix(bytes, 24)),
            HOp::Reset => "reset".into(),
            HOp::ResetSize(x) => format!("reset(Some({:?}))", x),
            HOp::ResetMany(n) => format!("reset x {}", n),
        })
        .collect()
}
