//! C18 — Unsupported XZ features are refused explicitly.

use super::c03::{build_valid, xz_text};
use crate::gen::xz::*;
use crate::refmodel::xz::{write_xz, Mut};
use crate::runner::*;
use crate::sut::{self, Io, ReaderKind, Verdict};
use proptest::prelude::*;
use serde::{Deserialize, Serialize};
use serde_json::json;

#[derive(Clone, Debug, PartialEq, Eq, Hash, Serialize, Deserialize)]
pub struct Case {
    pub file: XzCase,
    pub focus: Option<Mut>,
    pub salt: u64,
}

pub struct C18;

fn feature(m: &Mut) -> &'static str {
    match m {
        Mut::BothFlags(f) if f[0] != 0 => "stream flags: first byte non-zero",
        Mut::BothFlags(f) if f[1] & 0xF0 != 0 => "stream flags: reserved high bits",
        Mut::BothFlags(f) if f[1] == 0x0A => "check: SHA-256",
        Mut::BothFlags(_) => "check: unassigned id",
        Mut::HeaderFlags(_) => "stream flags: reserved bits in the header only",
        Mut::FooterFlags(_) => "stream flags: reserved bits in the footer only",
        Mut::FilterId { val, .. } if *val & 0xFFFF_FFFF == 0x21 => "filter: id with low 32 bits == 0x21",
        Mut::FilterId { .. } => "filter: other than LZMA2",
        Mut::ExtraFilter { .. } => "filter: chain with a non-LZMA2 filter first",
        Mut::BlockFlagsReserved { .. } => "block flags: reserved bits",
        Mut::Trailing(t) if t.iter().all(|b| *b == 0) => "stream padding",
        Mut::Trailing(_) => "second stream / padding + stream",
        _ => "other",
    }
}

impl Property for C18 {
    type Abs = (AbsXz, u64);
    type Case = Case;
    fn id(&self) -> &'static str {
        "C18"
    }
    fn cases(&self, tier: Tier) -> u32 {
        tier.pick(30_000, 300_000)
    }
    fn strategy(&self, _tier: Tier) -> BoxedStrategy<Self::Abs> {
        (abs_xz(3, 2, 8, 2000), any::<u64>()).boxed()
    }
    fn concretize(&self, a: &Self::Abs) -> Case {
        Case {
            file: concretize_xz(&a.0),
            focus: None,
            salt: a.1,
        }
    }
    fn rule(&self) -> String {
        "proptest generates a valid .xz file (0..=3 blocks, any supported check); per file the check ENUMERATES re-sealed variants using one unsupported feature each: stream flags (header and footer consistently, CRCs recomputed, Check fields sized per the specification's table and filled with placeholder bytes) with every check id 0..=15 other than None/CRC32/CRC64, with each reserved high bit, with a non-zero first byte, and the reserved bits set in the header only / in the footer only; per block: the filter id replaced by delta 0x03, BCJ 0x04..=0x0B, 0x20, 0x22, 0x4000000000000001 (LZMA1), ids whose low 32 bits equal 0x21 (0x21 + k*2^32), random 63-bit ids; a delta or BCJ filter chained before LZMA2; each reserved block-flag bit (0x04,0x08,0x10,0x20) and combinations; after the footer: 4*k zero bytes of stream padding, a second complete stream, padding + second stream. Oracle: Err. The single documented exception: a zero-block file declaring SHA-256 has no Check field anywhere and is completely and correctly decoded to nothing; there only 'Ok => empty output' is asserted. Non-trivial = the file has at least one block; distinct = (file hash, variant).".into()
    }
    fn assumptions(&self) -> Vec<String> {
        vec!["a zero-block stream declaring SHA-256 is accepted by lzma-rs (no Check field exists in such a file); refusing it would remove correct behaviour, so it is not asserted".into()]
    }
    fn required_classes(&self, tier: Tier) -> Vec<(&'static str, u64)> {
        let k = tier.pick(1, 10);
        vec![
            ("feature:check: SHA-256", 2000 * k),
            ("feature:check: unassigned id", 20_000 * k),
            ("feature:stream flags: reserved high bits", 5000 * k),
            ("feature:filter: other than LZMA2", 20_000 * k),
            ("feature:filter: id with low 32 bits == 0x21", 5000 * k),
            ("feature:filter: chain with a non-LZMA2 filter first", 5000 * k),
            ("feature:block flags: reserved bits", 10_000 * k),
            ("feature:stream padding", 5000 * k),
            ("feature:second stream / padding + stream", 5000 * k),
            ("trailing data through a fragmented reader", 20_000 * k),
            ("trailing data + interrupted reads at the stream end", 20_000 * k),
            ("SHA-256 file whose blocks are all empty", 30 * k),
        ]
    }

    fn judge(&self, c: &mut Case, st: &mut LocalStats) -> Judgement {
        let mut scratch = LocalStats::default();
        scratch.frozen = true;
        let (spec, file, expected) = match build_valid(&c.file, &mut scratch) {
            Ok(x) => x,
            Err(e) => return Judgement::HarnessBug(e),
        };
        let io = Io::default();
        let fh = hash64(&c.file);
        let nblocks = spec.blocks.len();
        st.sample(if nblocks > 0 { "file with blocks" } else { "zero-block file" }, || {
            json!({"file": xz_text(&c.file), "bytes": hex_prefix(&file.bytes, 48)})
        });
        let mut muts: Vec<Mut> = Vec::new();
        if let Some(f) = &c.focus {
            muts.push(f.clone());
        } else {
            for id in 0..16u8 {
                if !matches!(id, 0 | 1 | 4) {
                    muts.push(Mut::BothFlags([0, id]));
                }
            }
            for hi in [0x10u8, 0x20, 0x40, 0x80, 0xF0] {
                muts.push(Mut::BothFlags([0, spec.check | hi]));
                muts.push(Mut::BothFlags([0, hi]));
            }
            for first in [1u8, 0x80, 0xFF] {
                muts.push(Mut::BothFlags([first, spec.check]));
            }
            // the same reserved bits on one side only (the other side keeps the
            // supported flags): refused as unsupported or as inconsistent
            for f in [[1u8, spec.check], [0x80, spec.check], [0xFF, spec.check], [0, spec.check | 0x10], [0, spec.check | 0x80]] {
                muts.push(Mut::HeaderFlags(f));
                muts.push(Mut::FooterFlags(f));
            }
            let mut x = c.salt | 1;
            let mut rnd = move || {
                x ^= x << 13;
                x ^= x >> 7;
                x ^= x << 17;
                x
            };
            for b in 0..nblocks {
                for id in [0x03u64, 0x04, 0x05, 0x06, 0x07, 0x08, 0x09, 0x0A, 0x0B, 0x20, 0x22, 0x00, 0x01, 0x4000_0000_0000_0001, 0x4000_0000_0000_0002] {
                    muts.push(Mut::FilterId { b, val: id });
                }
                for k in [1u64 << 32, 1 << 33, 1 << 40, 1 << 62, (1 << 32) | (1 << 48), 0x3FFF_FFFF_0000_0000] {
                    muts.push(Mut::FilterId { b, val: 0x21 + k });
                }
                for _ in 0..4 {
                    let v = rnd() & ((1u64 << 63) - 1);
                    if v != 0x21 {
                        muts.push(Mut::FilterId { b, val: v });
                    }
                    let small = rnd() % 0x400;
                    if small != 0x21 {
                        muts.push(Mut::FilterId { b, val: small });
                    }
                }
                muts.push(Mut::ExtraFilter { b, id: 0x03, props: vec![0] });
                muts.push(Mut::ExtraFilter { b, id: 0x03, props: vec![(rnd() & 0xFF) as u8] });
                for id in 0x04..=0x0Bu64 {
                    muts.push(Mut::ExtraFilter { b, id, props: vec![] });
                }
                muts.push(Mut::ExtraFilter { b, id: 0x04, props: vec![0, 0, 0, 0] });
                for bits in [0x04u8, 0x08, 0x10, 0x20, 0x3C, 0x14] {
                    muts.push(Mut::BlockFlagsReserved { b, bits });
                }
            }
            for k in [1usize, 2, 3, 7] {
                muts.push(Mut::Trailing(vec![0; 4 * k]));
            }
            muts.push(Mut::Trailing(file.bytes.clone()));
            let mut t = vec![0; 4];
            t.extend_from_slice(&file.bytes);
            muts.push(Mut::Trailing(t));
            let mut t = vec![0; 8];
            t.extend_from_slice(&file.bytes);
            t.extend_from_slice(&[0; 4]);
            muts.push(Mut::Trailing(t));
        }
        for m in muts {
            let mf = write_xz(&spec, Some(&m));
            if !mf.mut_applied {
                continue;
            }
            st.eval();
            st.class(&format!("feature:{}", feature(&m)));
            if matches!(m, Mut::BothFlags([0, 0x0A])) && nblocks > 0 && spec.blocks.iter().all(|b| b.content.is_empty()) {
                st.class("SHA-256 file whose blocks are all empty");
            }
            if nblocks > 0 {
                st.nontrivial(&(fh, &m));
            }
            // data after the first stream must be noticed however the reader fragments it
            let flen = file.bytes.len();
            let readers: Vec<ReaderKind> = if matches!(m, Mut::Trailing(_)) {
                let mut v = vec![
                    ReaderKind::Slice,
                    ReaderKind::Chunky { pattern: vec![usize::MAX], stops: vec![flen - 2, flen] },
                    ReaderKind::Chunky { pattern: vec![usize::MAX], stops: vec![flen - 1, flen + 1] },
                    ReaderKind::Chunky { pattern: vec![1], stops: vec![] },
                    ReaderKind::BufReader { cap: flen, reads: vec![] },
                ];
                for k in [2usize, 3, 4, 8] {
                    if flen % k == 0 {
                        v.push(ReaderKind::BufReader { cap: flen / k, reads: vec![] });
                    }
                }
                v
            } else {
                vec![ReaderKind::Slice]
            };
            let mut r = sut::xz_decompress(&mf.bytes, &readers[0], &io);
            if matches!(m, Mut::Trailing(_)) && r.verdict.is_err() {
                // a source that reports ErrorKind::Interrupted (retryable) n times in a row
                // exactly where the first stream ends: Err either way, never success
                for n in [1usize, 2, 8, 9, 64] {
                    st.eval();
                    st.class("trailing data + interrupted reads at the stream end");
                    let io2 = Io { interrupt_burst: Some((flen, n)), ..Default::default() };
                    let r2 = sut::xz_decompress(&mf.bytes, &ReaderKind::Chunky { pattern: vec![usize::MAX], stops: vec![flen] }, &io2);
                    if !r2.verdict.is_err() {
                        r = r2;
                        break;
                    }
                }
            }
            for rk in &readers[1..] {
                if !r.verdict.is_err() {
                    break;
                }
                st.eval();
                st.class("trailing data through a fragmented reader");
                r = sut::xz_decompress(&mf.bytes, rk, &io);
            }
            match &r.verdict {
                Verdict::Err(_) => {}
                Verdict::Ok => {
                    if matches!(m, Mut::BothFlags([0, 0x0A])) && nblocks == 0 {
                        st.class("zero-block SHA-256 file accepted (allowed)");
                        if !r.out.is_empty() {
                            c.focus = Some(m.clone());
                            return Judgement::violation("sha256-zero-block-output", "zero-block SHA-256 file produced output".to_string());
                        }
                        continue;
                    }
                    c.focus = Some(m.clone());
                    return Judgement::violation(
                        format!("accepted:{}", feature(&m).replace(' ', "-")),
                        format!(
                            "file using an unsupported feature ({}; {:?}) is decoded and reported as success ({} bytes, original content {} bytes): {} ; bytes {}",
                            feature(&m),
                            match &m { Mut::Trailing(t) => format!("Trailing({}B)", t.len()), other => format!("{:?}", other) },
                            r.out.len(),
                            expected.len(),
                            xz_text(&c.file),
                            hex_prefix(&mf.bytes, 64)
                        ),
                    );
                }
                Verdict::Panic(p) => {
                    c.focus = Some(m.clone());
                    return Judgement::violation(format!("panic:{}", sut::panic_site(p)), format!("{:?}: {}", m, p));
                }
            }
        }
        Judgement::Pass
    }
}
