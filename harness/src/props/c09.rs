//! C09 — Match references outside the produced window are always rejected.

use super::c02::chunks_text;
use crate::gen::lzma2::*;
use crate::gen::program::*;
use crate::refmodel::enc::{encode_lzma, lzma_header};
use crate::refmodel::lzma2::{write_lzma2, Chunk, Reset};
use crate::refmodel::model::Props;
use crate::refmodel::program::{interpret, program_text, Interp, Invalid, Op};
use crate::runner::*;
use crate::sut::{self, Io, Opts, ReaderKind, USize};
use proptest::prelude::*;
use serde::{Deserialize, Serialize};
use serde_json::json;

#[derive(Clone, Copy, Debug, PartialEq, Eq, Hash, Serialize, Deserialize)]
pub enum Container {
    /// raw LZMA decoder, dictionary as given (any size >= 1)
    Raw,
    /// .lzma with 13-byte header (dictionary clamped to >= 4096), one-shot
    Header13,
    /// the same file through the streaming decoder (1-byte pieces / halves)
    Stream,
}

#[derive(Clone, Debug, Hash, Serialize, Deserialize)]
pub enum Case {
    Lzma {
        props: Props,
        dict: u32,
        container: Container,
        /// valid prefix program
        prefix: Vec<Op>,
        /// the out-of-window copy
        bad: Op,
        /// literals that follow
        tail: Vec<u8>,
        with_size: bool,
    },
    Lzma2 {
        /// valid chunks
        before: Vec<Chunk>,
        /// last chunk: reset class, props, valid prefix, bad op, tail literals
        reset: Reset,
        props: Props,
        prefix: Vec<Op>,
        bad: Op,
        tail: Vec<u8>,
        in_xz: bool,
        /// sink accepts at most this many bytes per write call (0 = unlimited)
        #[serde(default)]
        sink_max: usize,
    },
    /// A literal decoded in matched-literal mode (state >= 7) whose rep0 distance
    /// reaches behind a dictionary reset made by an uncompressed chunk: valid
    /// chunks (the last one compressed and ending in a copy with distance d),
    /// then an uncompressed chunk WITH dictionary reset carrying fewer than d
    /// bytes, then a compressed chunk WITHOUT state reset that starts with a
    /// literal. (liblzma refuses the chunk sequence; lzma-rs parses it, so the
    /// distance guard is what must reject it.)
    StaleRepLiteral {
        before: Vec<Chunk>,
        raw_len: usize,
        lits: Vec<u8>,
        in_xz: bool,
        sink_max: usize,
    },
    /// A reference through rep0 right after an end marker, which leaves
    /// rep0 = 2^32-1 (distance 2^32, larger than any dictionary): either a second
    /// payload given to the same raw decoder object without reset, encoded
    /// against the carried-over model and starting with a literal (decoded in
    /// matched mode against the rep0 byte), a short rep or a rep0 match
    /// (`bad` = Some), or zero bytes written to a `Stream` after the marker
    /// (they decode as a matched literal; `bad` = None).
    AfterMarker {
        props: Props,
        dict: u32,
        prefix: Vec<Op>,
        bad: Option<Op>,
        tail: Vec<u8>,
        zeros: usize,
    },
}

#[derive(Clone, Debug)]
pub struct Abs {
    props: Props,
    dict: u32,
    container: Container,
    prog: Vec<AbsOp>,
    cut_sel: u16,
    cut_class: u8,
    bad_kind: u8,
    bad_sel: u16,
    len_class: u8,
    tail: Vec<u8>,
    with_size: bool,
    // lzma2 variant
    l2: Option<(Vec<AbsChunk>, u8, bool)>,
    stale: bool,
    sink_max: usize,
    after_marker: bool,
}

pub struct C09;

/// choose where to cut the valid program: prefer a position of the requested
/// class relative to the wrap point of a window of size `dict`
/// Encoded bytes of an LZMA2-variant case (None for the LZMA variants).
pub fn lzma2_case_bytes(c: &Case) -> Option<Vec<u8>> {
    match c {
        Case::Lzma2 { before, reset, props, prefix, bad, tail, .. } => {
            let mut chunks = before.clone();
            let mut ops = prefix.clone();
            ops.push(*bad);
            ops.extend(tail.iter().map(|b| Op::Lit(*b)));
            chunks.push(Chunk::Lzma { reset: *reset, props: *props, ops });
            write_lzma2(&chunks, false).ok().map(|e| e.bytes)
        }
        Case::StaleRepLiteral { before, raw_len, lits, .. } => {
            let mut chunks = before.clone();
            chunks.push(Chunk::Raw { reset_dict: true, data: (0..*raw_len).map(|i| 0xC3u8.wrapping_add(i as u8)).collect() });
            let props = match before.last() {
                Some(Chunk::Lzma { props, .. }) => *props,
                _ => return None,
            };
            chunks.push(Chunk::Lzma { reset: Reset::None, props, ops: lits.iter().map(|b| Op::Lit(*b)).collect() });
            crate::refmodel::lzma2::write_lzma2_lenient(&chunks).ok().map(|e| e.bytes)
        }
        _ => None,
    }
}

fn choose_cut(ops: &[Op], dict: u64, cut_class: u8, sel: u16) -> usize {
    // produced after each prefix length
    let mut produced = vec![0u64];
    for op in ops {
        let p = *produced.last().unwrap();
        produced.push(p + op_out_len(op) as u64);
    }
    let want = |p: u64| -> bool {
        match cut_class % 7 {
            0 => p == 0,
            1 => p > 0 && p < dict,
            2 => p > 0 && p % dict == 0,
            3 => p % dict == dict - 1,
            4 => p >= 2 * dict,
            5 => p > 65536,
            _ => p > dict,
        }
    };
    let cands: Vec<usize> = (0..produced.len()).filter(|&i| want(produced[i])).collect();
    if cands.is_empty() {
        pick(sel, 0, ops.len() as u64) as usize
    } else {
        cands[pick(sel, 0, cands.len() as u64 - 1) as usize]
    }
}

/// build the bad op for interpreter state `it` (window size `dict`)
fn bad_op(kind: u8, sel: u16, len_class: u8, it: &Interp, dict: u64) -> Op {
    let avail = it.avail();
    let len = len_of(len_class, sel);
    let beyond_out = avail + 1; // smallest invalid because of output size
    let k = kind % 8;
    // at position 0 every rep is invalid (rep = 0 means distance 1 > 0 bytes)
    if avail == 0 {
        return match k {
            0 => Op::ShortRep,
            1 | 2 | 3 | 4 => Op::Rep { idx: k - 1, len },
            _ => Op::Match { dist: (1 + pick(sel, 0, 5000)) as u32, len },
        };
    }
    // a rep that happens to be invalid now (possible when the window is
    // smaller than the output: never, since reps <= dict; so use matches)
    let dist: u64 = match k {
        0 | 1 => beyond_out,
        2 => beyond_out + pick(sel, 1, 300),
        3 if avail > dict => dict.saturating_add(1),
        3 => beyond_out,
        4 if dict < u64::MAX - 1 && avail > dict + 1 => pick(sel, dict + 1, avail),
        4 => beyond_out + 1,
        5 => 0xFFFF_FFFF,
        6 => {
            // around a power of two above the output size
            let b = 64 - avail.leading_zeros() as u64;
            ((1u64 << b.min(31)) + (sel as u64 & 1)).max(beyond_out).min(0xFFFF_FFFF)
        }
        _ => pick(sel, beyond_out.min(0xFFFF_FFFF), 0xFFFF_FFFF),
    };
    Op::Match {
        dist: dist.min(0xFFFF_FFFF) as u32,
        len,
    }
}

impl Property for C09 {
    type Abs = Abs;
    type Case = Case;
    fn id(&self) -> &'static str {
        "C09"
    }
    fn cases(&self, tier: Tier) -> u32 {
        tier.pick(300_000, 3_000_000)
    }
    fn strategy(&self, tier: Tier) -> BoxedStrategy<Abs> {
        let n = tier.pick(40, 80);
        let cont = prop_oneof![
            5 => (Just(Container::Raw), dict_raw()),
            2 => (Just(Container::Header13), dict_header()),
            2 => (Just(Container::Stream), dict_header()),
        ];
        (
            (
                props_any(),
                cont,
                prop_oneof![
                    12 => abs_program(n, 200),
                    // long outputs: more than 64 KiB / 128 KiB before the bad copy
                    1 => (abs_program(8, 10), 250u16..900, any::<u16>()).prop_map(|(mut p, k, dsel)| {
                        p.insert(0, AbsOp::Lit(LitKind::Given, k as u8));
                        p.insert(1, AbsOp::Lit(LitKind::Noise, 5));
                        p.insert(2, AbsOp::Run { k, op: Box::new(AbsOp::Match { dclass: 6, dsel, lclass: 6, lsel: 0 }) });
                        p
                    }),
                ],
                any::<u16>(),
                0u8..7,
            ),
            (0u8..8, any::<u16>(), 0u8..7, prop::collection::vec(any::<u8>(), 0..6), any::<bool>()),
            prop_oneof![
                3 => Just(None),
                2 => (abs_chunks(4, 12, 10, false), 0u8..4, any::<bool>()).prop_map(Some),
            ],
            (prop::bool::weighted(0.12), prop_oneof![3 => Just(0usize), 1 => 1usize..9], prop::bool::weighted(0.04)),
        )
            .prop_map(
                |((props, (container, dict), prog, cut_sel, cut_class), (bad_kind, bad_sel, len_class, tail, with_size), l2, (stale, sink_max, after_marker))| Abs {
                    props,
                    dict,
                    container,
                    prog,
                    cut_sel,
                    cut_class,
                    bad_kind,
                    bad_sel,
                    len_class,
                    tail,
                    with_size,
                    l2,
                    stale,
                    sink_max,
                    after_marker,
                },
            )
            .boxed()
    }
    fn concretize(&self, a: &Abs) -> Case {
        if a.after_marker {
            let stream = a.container == Container::Stream || a.container == Container::Header13;
            let eff = if stream { (a.dict as u64).max(4096) } else { a.dict as u64 };
            let ops = concretize(
                &a.prog,
                ConcCfg {
                    dict: eff,
                    max_out: 20_000,
                    max_ops: 300,
                },
            );
            let cut = pick(a.cut_sel, 0, ops.len() as u64) as usize;
            let bad = if stream {
                None
            } else {
                Some(match a.bad_kind % 3 {
                    0 => Op::Lit(a.bad_sel as u8),
                    1 => Op::ShortRep,
                    _ => Op::Rep { idx: 0, len: len_of(a.len_class, a.bad_sel) },
                })
            };
            return Case::AfterMarker {
                props: a.props,
                dict: a.dict,
                prefix: ops[..cut].to_vec(),
                bad,
                tail: a.tail.clone(),
                zeros: 1 + (a.bad_sel as usize % 24),
            };
        }
        if let Some((chunks, reset, in_xz)) = &a.l2 {
            let before = concretize_chunks(
                chunks,
                L2Cfg {
                    max_total: 20_000,
                    max_chunk_ops: 2000,
                },
            );
            // interpreter state after the valid chunks
            let mut it = Interp::new(u64::MAX);
            for ch in &before {
                match ch {
                    Chunk::Raw { reset_dict, data } => {
                        if *reset_dict {
                            it.reset_dict();
                        }
                        it.append_raw(data);
                    }
                    Chunk::Lzma { reset, ops, .. } => {
                        if *reset == Reset::All {
                            it.reset_dict();
                        }
                        if *reset != Reset::None {
                            it.reset_state();
                        }
                        for op in ops {
                            it.apply(op).unwrap();
                        }
                    }
                }
            }
            if a.stale {
                // make the valid part end with a compressed chunk whose last op is a copy
                let mut before = before;
                let need_all = before.is_empty();
                let d = 2 + (a.bad_sel % 200) as u32;
                let mut ops: Vec<Op> = (0..d + 1).map(|i| Op::Lit((i as u8).wrapping_mul(37) ^ a.bad_kind)).collect();
                ops.push(Op::Match { dist: d, len: len_of(a.len_class, a.bad_sel) });
                let props = if a.props.lc + a.props.lp > 4 { Props::new(3, 0, 2) } else { a.props };
                before.push(Chunk::Lzma {
                    reset: if need_all { Reset::All } else { Reset::StateProps },
                    props,
                    ops,
                });
                let raw_len = 1 + (a.cut_sel as usize % (d as usize - 1).max(1)).min(d as usize - 2);
                let mut lits = a.tail.clone();
                lits.insert(0, a.bad_kind ^ 0x5C);
                return Case::StaleRepLiteral {
                    before,
                    raw_len,
                    lits,
                    in_xz: *in_xz,
                    sink_max: a.sink_max,
                };
            }
            let mut need_props = true;
            for ch in &before {
                match ch {
                    Chunk::Raw { reset_dict: true, .. } => need_props = true,
                    Chunk::Raw { .. } => {}
                    Chunk::Lzma { .. } => need_props = false,
                }
            }
            let mut r = *reset & 3;
            if before.is_empty() {
                r = 3;
            } else if need_props && r < 2 {
                r = 2;
            }
            let reset = [Reset::None, Reset::State, Reset::StateProps, Reset::All][r as usize];
            if reset == Reset::All {
                it.reset_dict();
            }
            if reset != Reset::None {
                it.reset_state();
            }
            let props = if a.props.lc + a.props.lp > 4 {
                Props::new(a.props.lc.min(4 - a.props.lp.min(4)), a.props.lp.min(4), a.props.pb)
            } else {
                a.props
            };
            // valid prefix inside the last chunk
            let mut prefix = Vec::new();
            let cutn = pick(a.cut_sel, 0, 12) as usize;
            for ab in flatten(&a.prog).take(cutn) {
                let op = concretize_one(ab, &it, u64::MAX);
                it.apply(&op).unwrap();
                prefix.push(op);
            }
            let bad = bad_op(a.bad_kind, a.bad_sel, a.len_class, &it, u64::MAX);
            return Case::Lzma2 {
                before,
                reset,
                props,
                prefix,
                bad,
                tail: a.tail.clone(),
                in_xz: *in_xz,
                sink_max: a.sink_max,
            };
        }
        let eff = match a.container {
            Container::Raw => a.dict as u64,
            _ => (a.dict as u64).max(4096),
        };
        let ops = concretize(
            &a.prog,
            ConcCfg {
                dict: eff,
                max_out: 300_000,
                max_ops: 4000,
            },
        );
        let cut = choose_cut(&ops, eff, a.cut_class, a.cut_sel);
        let prefix: Vec<Op> = ops[..cut].to_vec();
        let mut it = Interp::new(eff);
        for op in &prefix {
            it.apply(op).unwrap();
        }
        let bad = bad_op(a.bad_kind, a.bad_sel, a.len_class, &it, eff);
        Case::Lzma {
            props: a.props,
            dict: a.dict,
            container: a.container,
            prefix,
            bad,
            tail: a.tail.clone(),
            with_size: a.with_size,
        }
    }
    fn rule(&self) -> String {
        "proptest generates a valid symbol program, cuts it at a position chosen by class relative to the circular window's wrap point (nothing produced yet / before the first wrap / cursor == 0 / cursor == dict-1 / after >= 2 laps / produced > dict), appends ONE copy op whose distance is out of the window (produced+1, produced+k, dict+1 or any value in (dict, produced] when more than a window has been produced, 2^32-1, powers of two above the output, any rep or short rep as first symbol) and a few literals; encoded by the reference encoder and fed to raw::LzmaDecoder (dictionary sizes 1..=4095 and larger), lzma_decompress (13-byte header), Stream, and as the last chunk of a generated LZMA2 chunk sequence (accumulating window; distances reaching behind the last dictionary reset), also wrapped in .xz; plus references through rep0 right after an end marker (rep0 = 2^32-1): a second payload for the same raw decoder object without reset that starts with a literal / short rep / rep0 match, and zero bytes written to a Stream after the marker. Oracle: the decoder returns Err and what reached the sink is a prefix of the interpreter's output for the valid part. Non-trivial = something valid precedes the bad copy; distinct = SipHash of the concrete case.".into()
    }
    fn required_classes(&self, tier: Tier) -> Vec<(&'static str, u64)> {
        let m = tier.pick(1, 10);
        vec![
            ("window:circular/raw", 5000 * m),
            ("window:circular/header", 2000 * m),
            ("window:circular/stream", 2000 * m),
            ("window:accumulating/lzma2", 5000 * m),
            ("bad:first symbol rep/shortrep", 500 * m),
            ("bad:dist in (dict, produced] (stale lap)", 1000 * m),
            ("bad:dist == produced+1", 3000 * m),
            ("bad:dist 2^32-1", 1000 * m),
            ("pos:after >=2 laps", 1000 * m),
            ("pos:cursor==0", 300 * m),
            ("pos:cursor==dict-1", 300 * m),
            ("lzma2:distance reaches behind dictionary reset", 300 * m),
            ("bad:matched literal with rep0 behind a dictionary reset", 1000 * m),
            ("sink:short writes", 1000 * m),
            ("pos:more than 64 KiB produced, before the first wrap", 200 * m),
            ("bad:rep0 reference after an end marker (raw decoder continued)", 1000 * m),
            ("bad:bytes written to a Stream after the end marker", 1000 * m),
        ]
    }

    fn judge(&self, c: &mut Case, st: &mut LocalStats) -> Judgement {
        match c {
            Case::AfterMarker { props, dict, prefix, bad, tail, zeros } => {
                let stream = bad.is_none();
                let eff = if stream { (*dict as u64).max(4096) } else { *dict as u64 };
                let valid_out = match interpret(prefix, eff) {
                    Ok(o) => o,
                    Err(e) => return Judgement::HarnessBug(format!("prefix invalid: {:?}", e)),
                };
                // first stream: prefix + end marker
                let mut enc = crate::refmodel::enc::SymEncoder::new(*props);
                let mut rc = crate::refmodel::enc::RcEnc::new();
                for op in prefix.iter() {
                    enc.encode(&mut rc, op);
                }
                enc.encode_marker(&mut rc, 2);
                let first = rc.finish();
                st.eval();
                st.nontrivial(&(props.byte(), *dict, &*prefix, *bad, &*tail, *zeros));
                if let Some(bad) = bad {
                    st.class("window:circular/raw");
                    st.class("bad:rep0 reference after an end marker (raw decoder continued)");
                    // second payload against the carried-over model; the decoder starts a new window
                    enc.reset_dict();
                    let mut rc2 = crate::refmodel::enc::RcEnc::new();
                    enc.encode(&mut rc2, bad);
                    for b in tail.iter() {
                        enc.encode(&mut rc2, &Op::Lit(*b));
                    }
                    enc.encode_marker(&mut rc2, 2);
                    let second = rc2.finish();
                    st.sample("after marker / raw decoder continued", || {
                        json!({"props": props, "dict": dict, "first_program": program_text(prefix, 12), "then_without_reset": bad.short(), "second_payload": hex_prefix(&second, 24)})
                    });
                    let (first_ok, first_out, r) = sut::raw_lzma_continue(*props, *dict, &first, &second, &Io::default());
                    if !first_ok || first_out != valid_out {
                        st.class("after marker: first stream not decoded (left to C01)");
                        return Judgement::Pass;
                    }
                    let what = format!(
                        "props={:?} dict={} raw decoder: [{}] + end marker decoded, then (no reset) a payload starting with {} : rep0 is 2^32-1 after the marker, so this refers to distance 2^32",
                        props,
                        dict,
                        program_text(prefix, 20),
                        bad.short()
                    );
                    if r.verdict.is_ok() {
                        return Judgement::violation("accepted:rep0-after-marker", format!("out-of-window reference accepted: {} ; output {} bytes", what, r.out.len()));
                    }
                    if let sut::Verdict::Panic(p) = &r.verdict {
                        return Judgement::violation(format!("panic:{}", sut::panic_site(p)), format!("{} ; {}", what, p));
                    }
                    if !r.out.is_empty() {
                        return Judgement::violation("fabricated-bytes", format!("rejected, but the sink received {} bytes: {}", r.out.len(), what));
                    }
                } else {
                    st.class("window:circular/stream");
                    st.class("bad:bytes written to a Stream after the end marker");
                    let mut f = lzma_header(*props, *dict, None);
                    f.extend_from_slice(&first);
                    let n = f.len();
                    f.extend(std::iter::repeat(0u8).take(*zeros));
                    st.sample("after marker / stream continued", || {
                        json!({"props": props, "dict": dict, "program": program_text(prefix, 12), "zero_bytes_after_marker": zeros})
                    });
                    let pieces: Vec<usize> = if tail.len() % 2 == 0 { vec![n, *zeros] } else { std::iter::repeat(1).take(f.len()).collect() };
                    let r = sut::stream_chunked(&f, &Opts::with(USize::ReadFromHeader), &pieces);
                    let what = format!(
                        "props={:?} dict={} Stream: complete stream [{}] + end marker ({} bytes), then {} zero bytes in further write calls (they decode as a literal in matched mode against rep0 = 2^32-1)",
                        props,
                        dict,
                        program_text(prefix, 20),
                        n,
                        zeros
                    );
                    if let sut::Verdict::Panic(p) = &r.verdict {
                        return Judgement::violation(format!("panic:{}", sut::panic_site(p)), format!("{} ; {}", what, p));
                    }
                    if r.out.len() > valid_out.len() || r.out[..] != valid_out[..r.out.len()] {
                        return Judgement::violation(
                            "fabricated-bytes",
                            format!("the sink received bytes beyond the stream's output ({} instead of {}): {}", r.out.len(), valid_out.len(), what),
                        );
                    }
                    if r.verdict.is_ok() && r.refused_at.is_none() {
                        return Judgement::violation("accepted:rep0-after-marker", format!("out-of-window reference accepted: {}", what));
                    }
                }
                Judgement::Pass
            }
            Case::Lzma { props, dict, container, prefix, bad, tail, with_size } => {
                let eff = match container {
                    Container::Raw => *dict as u64,
                    _ => (*dict as u64).max(4096),
                };
                let valid_out = match interpret(prefix, eff) {
                    Ok(o) => o,
                    Err(e) => return Judgement::HarnessBug(format!("prefix invalid: {:?}", e)),
                };
                // the bad op must really be invalid
                let mut it = Interp::new(eff);
                for op in prefix.iter() {
                    it.apply(op).unwrap();
                }
                let inv = match it.apply(bad) {
                    Err(e) => e,
                    Ok(()) => return Judgement::HarnessBug(format!("bad op {:?} is valid", bad)),
                };
                let mut ops = prefix.clone();
                ops.push(*bad);
                ops.extend(tail.iter().map(|b| Op::Lit(*b)));
                let enc = encode_lzma(*props, &ops, if *with_size { None } else { Some(2) });
                let size = if *with_size { Some(enc.hist.len() as u64) } else { None };
                let produced = valid_out.len() as u64;
                // classification
                st.class(match container {
                    Container::Raw => "window:circular/raw",
                    Container::Header13 => "window:circular/header",
                    Container::Stream => "window:circular/stream",
                });
                match (&inv, &*bad) {
                    (_, Op::ShortRep) | (_, Op::Rep { .. }) => st.class("bad:first symbol rep/shortrep"),
                    (Invalid::BeyondDict { dist, .. }, _) if *dist <= produced => {
                        st.class("bad:dist in (dict, produced] (stale lap)")
                    }
                    (_, Op::Match { dist, .. }) if *dist == 0xFFFF_FFFF => st.class("bad:dist 2^32-1"),
                    (_, Op::Match { dist, .. }) if *dist as u64 == produced + 1 => st.class("bad:dist == produced+1"),
                    _ => st.class("bad:other distance beyond output"),
                }
                if produced == 0 {
                    st.class("pos:nothing produced");
                } else if produced < eff {
                    st.class("pos:before first wrap");
                }
                if produced > 0 && produced % eff == 0 {
                    st.class("pos:cursor==0");
                }
                if produced % eff == eff - 1 {
                    st.class("pos:cursor==dict-1");
                }
                if produced >= 2 * eff {
                    st.class("pos:after >=2 laps");
                }
                if produced > 65536 && produced < eff {
                    st.class("pos:more than 64 KiB produced, before the first wrap");
                }
                if !prefix.is_empty() {
                    st.nontrivial(&(props.byte(), *dict, *container as u8, &*prefix, *bad, &*tail));
                    st.sample(&format!("{:?}", container), || {
                        json!({"props": props, "dict": dict, "container": format!("{:?}", container), "valid_prefix": program_text(prefix, 16),
                               "bad_op": bad.short(), "produced_before": produced, "payload": hex_prefix(&enc.payload, 32)})
                    });
                }
                st.eval();
                let (verdict, out) = match container {
                    Container::Raw => {
                        let r = sut::raw_lzma(*props, *dict, size, None, &enc.payload, &ReaderKind::Slice, &Io::default());
                        (r.verdict, r.out)
                    }
                    Container::Header13 => {
                        let mut f = lzma_header(*props, *dict, size);
                        f.extend_from_slice(&enc.payload);
                        let r = sut::lzma_decompress_simple(&f, &Opts::with(USize::ReadFromHeader));
                        (r.verdict, r.out)
                    }
                    Container::Stream => {
                        let mut f = lzma_header(*props, *dict, size);
                        f.extend_from_slice(&enc.payload);
                        let pieces: Vec<usize> = if tail.len() % 2 == 0 {
                            std::iter::repeat(1).take(f.len()).collect()
                        } else {
                            vec![f.len() / 2]
                        };
                        let r = sut::stream_chunked(&f, &Opts::with(USize::ReadFromHeader), &pieces);
                        (r.verdict, r.out)
                    }
                };
                let what = format!(
                    "props={:?} dict={} {:?} valid prefix=[{}] ({} bytes) then {} ({:?}) then {} literals",
                    props,
                    dict,
                    container,
                    program_text(prefix, 30),
                    produced,
                    bad.short(),
                    inv,
                    tail.len()
                );
                if verdict.is_ok() {
                    return Judgement::violation(
                        "accepted",
                        format!("out-of-window copy accepted: {} ; output {} bytes", what, out.len()),
                    );
                }
                if let sut::Verdict::Panic(p) = &verdict {
                    return Judgement::violation(
                        format!("panic:{}", sut::panic_site(p)),
                        format!("out-of-window copy panics instead of an error: {} ; {}", what, p),
                    );
                }
                if out.len() > valid_out.len() || out[..] != valid_out[..out.len()] {
                    return Judgement::violation(
                        "fabricated-bytes",
                        format!("rejected, but the sink received bytes that are not a prefix of the valid output: {} ; sink {} bytes", what, out.len()),
                    );
                }
                Judgement::Pass
            }
            Case::StaleRepLiteral { before, raw_len, lits, in_xz, sink_max } => {
                let mut chunks = before.clone();
                let data: Vec<u8> = (0..*raw_len).map(|i| 0xC3u8.wrapping_add(i as u8)).collect();
                chunks.push(Chunk::Raw { reset_dict: true, data });
                let valid_out = match super::c02::interpret_chunks(&chunks) {
                    Ok(o) => o,
                    Err(e) => return Judgement::HarnessBug(format!("valid part invalid: {}", e)),
                };
                let props = match before.last() {
                    Some(Chunk::Lzma { props, .. }) => *props,
                    _ => return Judgement::HarnessBug("stale-rep case without compressed chunk".into()),
                };
                chunks.push(Chunk::Lzma {
                    reset: Reset::None,
                    props,
                    ops: lits.iter().map(|b| Op::Lit(*b)).collect(),
                });
                let enc = match crate::refmodel::lzma2::write_lzma2_lenient(&chunks) {
                    Ok(e) => e,
                    Err(e) => return Judgement::HarnessBug(format!("lenient writer: {}", e)),
                };
                st.class("window:accumulating/lzma2");
                st.class("bad:matched literal with rep0 behind a dictionary reset");
                if *sink_max > 0 {
                    st.class("sink:short writes");
                }
                st.nontrivial(&(&*before, *raw_len, &*lits, *in_xz, *sink_max));
                st.sample("lzma2 stale rep0 literal", || {
                    json!({"valid_chunks": chunks_text(before, 4), "then": format!("Raw(reset_dict=true, {}B) ; Lzma(no reset, {} literals)", raw_len, lits.len()), "stream": hex_prefix(&enc.bytes, 40)})
                });
                st.eval();
                let io = Io {
                    sink: crate::iowrap::SinkCfg {
                        max_per_write: if *sink_max > 0 { vec![*sink_max] } else { vec![] },
                        ..Default::default()
                    },
                    ..Default::default()
                };
                let r = if *in_xz {
                    let f = super::c02::xz_wrap(&enc.bytes, &enc.output, 1);
                    sut::xz_decompress(&f, &ReaderKind::Slice, &io)
                } else {
                    sut::lzma2_decompress(&enc.bytes, &ReaderKind::Slice, &io)
                };
                let what = format!(
                    "LZMA2{} chunks [{}] then Raw(reset_dict=true, {}B) then Lzma(no state reset) starting with a literal: the literal's match byte lies at rep0 distance behind the dictionary reset",
                    if *in_xz { " in .xz" } else { "" },
                    chunks_text(before, 6),
                    raw_len
                );
                if r.verdict.is_ok() {
                    return Judgement::violation("accepted:stale-rep-literal", format!("accepted: {}", what));
                }
                if let sut::Verdict::Panic(p) = &r.verdict {
                    return Judgement::violation(format!("panic:{}", sut::panic_site(p)), format!("{} ; {}", what, p));
                }
                if r.out.len() > valid_out.len() || r.out[..] != valid_out[..r.out.len()] {
                    return Judgement::violation("fabricated-bytes", format!("sink is not a prefix of the valid output: {}", what));
                }
                Judgement::Pass
            }
            Case::Lzma2 { before, reset, props, prefix, bad, tail, in_xz, sink_max } => {
                let mut chunks = before.clone();
                let mut ops = prefix.clone();
                ops.push(*bad);
                ops.extend(tail.iter().map(|b| Op::Lit(*b)));
                chunks.push(Chunk::Lzma {
                    reset: *reset,
                    props: *props,
                    ops,
                });
                let enc = match write_lzma2(&chunks, false) {
                    Ok(e) => e,
                    Err(e) => return Judgement::HarnessBug(format!("lzma2 writer: {}", e)),
                };
                // valid part
                let mut valid = before.clone();
                if !prefix.is_empty() {
                    valid.push(Chunk::Lzma {
                        reset: *reset,
                        props: *props,
                        ops: prefix.clone(),
                    });
                }
                let valid_out = match super::c02::interpret_chunks(&valid) {
                    Ok(o) => o,
                    Err(e) => return Judgement::HarnessBug(format!("valid part invalid: {}", e)),
                };
                let mut full = before.clone();
                let mut v2 = prefix.clone();
                v2.push(*bad);
                full.push(Chunk::Lzma {
                    reset: *reset,
                    props: *props,
                    ops: v2,
                });
                if super::c02::interpret_chunks(&full).is_ok() {
                    return Judgement::HarnessBug("bad op is valid in the LZMA2 context".into());
                }
                st.class("window:accumulating/lzma2");
                // does the distance reach behind a dictionary reset (stale bytes exist there)?
                let total_before: usize = valid_out.len();
                if let Op::Match { dist, .. } = bad {
                    let had_reset = *reset == Reset::All && !before.is_empty()
                        || before.iter().skip(1).any(|c| matches!(c, Chunk::Raw { reset_dict: true, .. } | Chunk::Lzma { reset: Reset::All, .. }));
                    if had_reset && (*dist as usize) <= total_before {
                        st.class("lzma2:distance reaches behind dictionary reset");
                    }
                } else {
                    st.class("bad:first symbol rep/shortrep");
                }
                if !before.is_empty() || !prefix.is_empty() {
                    st.nontrivial(&(&*before, *reset, props.byte(), &*prefix, *bad, &*tail, *in_xz, *sink_max));
                    st.sample("lzma2", || {
                        json!({"valid_chunks": chunks_text(before, 4), "last_chunk_reset": format!("{:?}", reset), "valid_prefix": program_text(prefix, 12), "bad_op": bad.short(), "stream": hex_prefix(&enc.bytes, 40)})
                    });
                }
                st.eval();
                if *sink_max > 0 {
                    st.class("sink:short writes");
                }
                let io = Io {
                    sink: crate::iowrap::SinkCfg {
                        max_per_write: if *sink_max > 0 { vec![*sink_max] } else { vec![] },
                        ..Default::default()
                    },
                    ..Default::default()
                };
                let r = if *in_xz {
                    let f = super::c02::xz_wrap(&enc.bytes, &enc.output, 1);
                    sut::xz_decompress(&f, &ReaderKind::Slice, &io)
                } else {
                    sut::lzma2_decompress(&enc.bytes, &ReaderKind::Slice, &io)
                };
                let what = format!(
                    "LZMA2{} valid chunks [{}] then chunk({:?}) with valid prefix [{}] then {}",
                    if *in_xz { " in .xz" } else { "" },
                    chunks_text(before, 6),
                    reset,
                    program_text(prefix, 20),
                    bad.short()
                );
                if r.verdict.is_ok() {
                    return Judgement::violation("accepted", format!("out-of-window copy accepted: {}", what));
                }
                if let sut::Verdict::Panic(p) = &r.verdict {
                    return Judgement::violation(
                        format!("panic:{}", sut::panic_site(p)),
                        format!("out-of-window copy panics: {} ; {}", what, p),
                    );
                }
                if r.out.len() > valid_out.len() || r.out[..] != valid_out[..r.out.len()] {
                    return Judgement::violation("fabricated-bytes", format!("sink is not a prefix of the valid output: {}", what));
                }
                Judgement::Pass
            }
        }
    }
}
