//! "Worst-case symbol" recipe: train the adaptive probabilities so that one
//! symbol (the end marker, coded with match length 273) takes the improbable
//! branch at (almost) every adaptive decision and therefore needs ~18 input
//! bytes. The streaming decoder's look-ahead (dry run on <= 20 buffered bytes)
//! is exercised hardest by such symbols.

use super::c05::Case;
use crate::refmodel::enc::{encode_lzma, lzma_header};
use crate::refmodel::model::Props;
use crate::refmodel::program::{interpret, Op};
use crate::sut::{Opts, USize};

const REPS: usize = 160;

/// Symbol program (pb must be 0 so that there is a single pos_state context).
pub fn worst_case_program() -> Vec<Op> {
    let mut ops: Vec<Op> = Vec::new();
    // history: > 64 KiB so that position slots 32.. are reachable
    let mut x = 12345u32;
    for _ in 0..48 {
        x = x.wrapping_mul(1103515245).wrapping_add(12345);
        ops.push(Op::Lit((x >> 16) as u8));
    }
    for _ in 0..260 {
        ops.push(Op::Match { dist: 37, len: 273 });
    }
    // length "high" tree, deepest node first: value = k ones then zeros
    for k in (0..8u32).rev() {
        let h: u32 = if k == 0 { 0 } else { ((1u32 << k) - 1) << (8 - k) };
        for _ in 0..REPS {
            ops.push(Op::Match { dist: 1, len: 18 + h });
        }
    }
    // align tree (reverse, LSB first), deepest first: low k bits one, bit k zero
    for k in (0..4u32).rev() {
        let a = (1u32 << k) - 1;
        for _ in 0..REPS {
            ops.push(Op::Match { dist: 128 + a + 1, len: 6 });
        }
    }
    // pos_slot[len_state 3] node "1": slots 32..47 (zero-based distance >= 2^16), low nibble 0
    for _ in 0..REPS {
        ops.push(Op::Match { dist: 65536 + 1, len: 6 });
    }
    // pos_slot root towards 0
    for _ in 0..REPS {
        ops.push(Op::Match { dist: 1, len: 5 });
    }
    // choice2 towards 0 (len 10..17), then choice towards 0 (len 2..9)
    for _ in 0..REPS {
        ops.push(Op::Match { dist: 1, len: 10 });
    }
    for _ in 0..REPS {
        ops.push(Op::Match { dist: 1, len: 2 });
    }
    // is_rep[state 0] towards 1: a rep executed in state 0, then three literals
    // bring the state back to 0 (8 -> 5 -> 2 -> 0)
    ops.push(Op::Lit(7));
    ops.push(Op::Lit(7));
    ops.push(Op::Lit(7));
    for _ in 0..REPS {
        ops.push(Op::Rep { idx: 0, len: 2 });
        ops.push(Op::Lit(9));
        ops.push(Op::Lit(9));
        ops.push(Op::Lit(9));
    }
    // is_match[state 0] towards 0
    for _ in 0..260 {
        ops.push(Op::Lit(9));
    }
    ops
}

pub struct WorstStream {
    pub bytes: Vec<u8>,
    pub sym_ends: Vec<usize>,
    pub header_len: usize,
    /// offset where the last (worst-case) symbol starts, and its length in bytes
    pub last_start: usize,
    pub last_len: usize,
}

pub fn worst_stream(props: Props) -> WorstStream {
    assert_eq!(props.pb, 0);
    let ops = worst_case_program();
    interpret(&ops, 1 << 20).expect("worst-case program is valid");
    let enc = encode_lzma(props, &ops, Some(273));
    let mut bytes = lzma_header(props, 1 << 20, None);
    let header_len = bytes.len();
    bytes.extend_from_slice(&enc.payload);
    let sym_ends: Vec<usize> = enc.table.iter().map(|t| header_len + t.consumed as usize).collect();
    let n = sym_ends.len();
    let last_start = sym_ends[n - 2];
    let last_len = sym_ends[n - 1] - last_start;
    WorstStream {
        bytes,
        sym_ends,
        header_len,
        last_start,
        last_len,
    }
}

/// Fixed C05 cases: the worst-case stream cut at every offset around its last symbol.
/// a long stream (about 1.4 MiB of output, ~40 KB compressed with an incompressible stretch)
fn long_stream_cases() -> Vec<Case> {
    let mut ops: Vec<Op> = Vec::new();
    let mut x = 99991u32;
    for _ in 0..30_000 {
        x = x.wrapping_mul(1664525).wrapping_add(1013904223);
        ops.push(Op::Lit((x >> 24) as u8));
    }
    for i in 0..5000u32 {
        ops.push(Op::Match { dist: 1 + (i * 7919) % 29_000, len: 273 });
    }
    let props = Props::new(3, 0, 2);
    let enc = encode_lzma(props, &ops, Some(2));
    let mut v = Vec::new();
    for dict in [1u32 << 16, 1 << 23] {
        let mut bytes = lzma_header(props, dict, None);
        let header_len = bytes.len();
        bytes.extend_from_slice(&enc.payload);
        let n = bytes.len();
        let sym_ends: Vec<usize> = enc.table.iter().map(|t| header_len + t.consumed as usize).collect();
        for k in [65536usize, 8192, 4099, 19, 1] {
            let mut pieces: Vec<usize> = std::iter::repeat(k).take(n / k).collect();
            pieces.push(n % k);
            v.push(Case {
                input: bytes.clone(),
                opts: Opts::with(USize::ReadFromHeader),
                pieces,
                header_len,
                sym_ends: sym_ends.clone(),
                first_mut_at: usize::MAX,
                kind: "valid".into(),
            });
        }
    }
    v
}

pub fn worst_case_stream_cases() -> Vec<Case> {
    let mut v = long_stream_cases();
    for props in [Props::new(0, 0, 0), Props::new(3, 0, 0), Props::new(8, 4, 0)] {
        let w = worst_stream(props);
        let n = w.bytes.len();
        let mk = |pieces: Vec<usize>| Case {
            input: w.bytes.clone(),
            opts: Opts::with(USize::ReadFromHeader),
            pieces,
            header_len: w.header_len,
            sym_ends: w.sym_ends.clone(),
            first_mut_at: usize::MAX,
            kind: "valid".into(),
        };
        let lo = w.last_start.saturating_sub(3);
        for cut in lo..n {
            // two pieces
            v.push(mk(vec![cut, n - cut]));
            // the tail one byte at a time
            let mut p = vec![cut];
            p.extend(std::iter::repeat(1).take(n - cut));
            v.push(mk(p));
            // a second cut k bytes later
            for k in [1usize, 2, 7, 15, 16, 17, 18, 19] {
                if cut + k < n {
                    v.push(mk(vec![cut, k, n - cut - k]));
                }
            }
        }
        v.push(mk(std::iter::repeat(1).take(n).collect()));
        v.push(mk(std::iter::repeat(19).take(n / 19).chain(std::iter::once(n % 19)).collect()));
    }
    v
}
