//! C07 — Decoders are total: no panic, no hang, bounded memory on arbitrary bytes.

use super::c06::field_mutations;
use crate::alloc;
use crate::gen::bytes::*;
use crate::gen::program::*;
use crate::gen::xz::*;
use crate::iowrap::{SinkCfg, SinkState};
use crate::refmodel::crc::crc32;
use crate::refmodel::model::Props;
use crate::refmodel::xz::{write_xz, Mut};
use crate::runner::*;
use crate::sut::{self, Call, Io, Opts, ReaderKind, USize, Verdict};
use lzma_rs::decompress::raw::{Lzma2Decoder, LzmaDecoder, LzmaParams, LzmaProperties};
use proptest::prelude::*;
use serde::{Deserialize, Serialize};
use serde_json::json;

pub const SINK_CAP: usize = 32 << 20;

#[derive(Clone, Debug, PartialEq, Eq, Hash, Serialize, Deserialize)]
pub enum Entry {
    Lzma(Opts),
    Lzma2,
    Xz,
    Stream { opts: Opts, script: Vec<Call> },
    /// raw LZMA decoder: decompress, optionally reset(x) and decompress the same bytes again
    RawLzma { lc: u32, lp: u32, pb: u32, dict: u32, size: Option<u64>, memlimit: Option<u64>, again: Option<Option<Option<u64>>> },
    RawLzma2 { again: bool },
}

#[derive(Clone, Debug, PartialEq, Eq, Hash, Serialize, Deserialize)]
pub struct Case {
    pub entry: Entry,
    #[serde(with = "hexser")]
    pub input: Vec<u8>,
    pub kind: String,
    /// for an unmutated valid stream decoded by its own decoder: its true output
    /// length (no legitimate decode can produce more), enabling a tight heap bound
    #[serde(default)]
    pub known_output: Option<u64>,
}

#[derive(Clone, Debug)]
pub struct Abs {
    base: AbsBase,
    sealed: Option<u16>,
    muts: Vec<AbsMut>,
    entry_sel: u8,
    osel: u8,
    nsel: u16,
    memsel: u8,
    raw: (u32, u32, u32, u8, u8),
    calls: Vec<(u8, u16)>,
    allow_incomplete: bool,
}

pub struct C07;

fn size_of(sel: u16, true_len: u64) -> Option<u64> {
    match sel % 9 {
        0 => None,
        1 => Some(true_len),
        2 => Some(0),
        3 => Some(true_len + 1),
        4 => Some(1 << 31),
        5 => Some((1 << 32) - 1),
        6 => Some(1 << 63),
        7 => Some(u64::MAX),
        _ => Some((sel as u64) << 3),
    }
}

fn mem_of(sel: u8) -> Option<u64> {
    match sel % 8 {
        0..=3 => None,
        4 => Some(0),
        5 => Some(1),
        6 => Some(4096),
        _ => Some(u64::MAX),
    }
}

fn dict_of(sel: u8) -> u32 {
    match sel % 10 {
        0 => 0,
        1 => 1,
        2 => 2,
        3 => 7,
        4 => 4096,
        5 => 0x7FFF_FFFF,
        6 => 0x8000_0000,
        7 => 0xFFFF_FFFF,
        8 => 65536,
        _ => 300,
    }
}

impl Property for C07 {
    type Abs = Abs;
    type Case = Case;
    fn id(&self) -> &'static str {
        "C07"
    }
    fn cases(&self, tier: Tier) -> u32 {
        tier.pick(400_000, 4_000_000)
    }
    fn hang_is_violation(&self) -> bool {
        true
    }
    fn alloc_failure_is_violation(&self) -> bool {
        true
    }
    fn strategy(&self, _tier: Tier) -> BoxedStrategy<Abs> {
        let base = prop_oneof![
            10 => abs_lzma_file(30, 300, 60_000).prop_map(AbsBase::Lzma),
            // outputs beyond 1 MiB (with header dictionaries up to 4 GiB - 1)
            1 => (abs_lzma_file(6, 10, 2 << 20), 4000u16..7500, any::<u16>()).prop_map(|(mut f, k, dsel)| {
                f.prog.insert(0, AbsOp::Lit(LitKind::Given, k as u8));
                f.prog.insert(1, AbsOp::Lit(LitKind::Noise, 9));
                f.prog.insert(2, AbsOp::Run { k, op: Box::new(AbsOp::Match { dclass: 6, dsel, lclass: 6, lsel: 0 }) });
                AbsBase::Lzma(f)
            }),
            8 => abs_base_lzma2(4, 14),
            12 => abs_base_xz(3),
            4 => random_bytes(300).prop_map(AbsBase::Random),
        ];
        (
            base,
            prop_oneof![3 => Just(None), 2 => any::<u16>().prop_map(Some)],
            abs_muts(4),
            0u8..16,
            any::<u8>(),
            any::<u16>(),
            any::<u8>(),
            (0u32..=8, 0u32..=4, 0u32..=4, any::<u8>(), any::<u8>()),
            prop::collection::vec((0u8..8, any::<u16>()), 1..20),
            any::<bool>(),
        )
            .prop_map(|(base, sealed, muts, entry_sel, osel, nsel, memsel, raw, calls, allow_incomplete)| Abs {
                base,
                sealed,
                muts,
                entry_sel,
                osel,
                nsel,
                memsel,
                raw,
                calls,
                allow_incomplete,
            })
            .boxed()
    }
    fn concretize(&self, a: &Abs) -> Case {
        // input bytes
        let mut kind;
        let mut true_len = 0u64;
        let mut output_known = false;
        let mut props = Props::new(3, 0, 2);
        let base_bytes: Vec<u8> = match &a.base {
            AbsBase::Lzma(f) => {
                kind = "lzma".to_string();
                let b = build_lzma_file(f);
                true_len = b.output.len() as u64;
                output_known = true;
                props = b.props;
                b.bytes
            }
            AbsBase::Lzma2(_) => {
                kind = "lzma2".into();
                build_base(&a.base)
            }
            AbsBase::Xz(x) => {
                kind = "xz".into();
                let c = concretize_xz(x);
                match build_spec(&c) {
                    Ok(spec) => {
                        let valid = write_xz(&spec, None);
                        match a.sealed {
                            Some(sel) => {
                                kind = "xz-sealed".into();
                                // field table plus extreme values for the size-like fields
                                let mut all: Vec<Mut> = field_mutations(&spec, &valid).into_iter().map(|(m, _)| m).collect();
                                for b in 0..spec.blocks.len() {
                                    for v in [u64::MAX >> 1, 1 << 62, 1 << 40, (1 << 32) - 1, 1 << 31] {
                                        all.push(Mut::PropsSize { b, val: v });
                                        all.push(Mut::PackedSize { b, val: v });
                                        all.push(Mut::UnpackedSize { b, val: v });
                                        all.push(Mut::IndexUnpadded { b, val: v });
                                    }
                                    for v in [0u8, 1, 0x3F, 0x40, 0x80, 0xC0, 0xFF] {
                                        all.push(Mut::BlockHeaderSizeByte { b, val: v });
                                    }
                                    for v in [0u64, 2, 3, 200] {
                                        all.push(Mut::PropsSize { b, val: v });
                                    }
                                    // chains of several LZMA2 filters (lzma-rs decodes them one after the other)
                                    all.push(Mut::ExtraFilter { b, id: 0x21, props: vec![0] });
                                    all.push(Mut::ExtraFilter { b, id: 0x21, props: vec![40] });
                                    all.push(Mut::ExtraFilter { b, id: 0x21, props: vec![] });
                                }
                                for v in [u64::MAX >> 1, 1 << 62, 1 << 40, 1 << 32] {
                                    all.push(Mut::IndexCount(v));
                                }
                                // every check id (supported, SHA-256, unassigned), declared on both sides / one side
                                for id in 0..16u8 {
                                    all.push(Mut::BothFlags([0, id]));
                                    all.push(Mut::HeaderFlags([0, id]));
                                    all.push(Mut::FooterFlags([0, id]));
                                }
                                for f in [[1u8, spec.check], [0xFF, 0xFF], [0, 0x1A], [0, 0xFA]] {
                                    all.push(Mut::BothFlags(f));
                                }
                                for v in [u32::MAX, 0x7FFF_FFFF, 0x8000_0000, 0x3FFF_FFFF, 0x4000_0000] {
                                    all.push(Mut::BackwardSize(v));
                                }
                                let m = &all[pick(sel, 0, all.len() as u64 - 1) as usize];
                                write_xz(&spec, Some(m)).bytes
                            }
                            None => valid.bytes,
                        }
                    }
                    Err(_) => vec![],
                }
            }
            AbsBase::Random(v) => {
                kind = "random".into();
                v.clone()
            }
        };
        let (input, _) = apply_muts(&base_bytes, &a.muts);
        if !a.muts.is_empty() {
            kind.push_str("+mutated");
        }
        let mut opts = Opts::with(match a.osel % 6 {
            0 | 1 => USize::ReadFromHeader,
            2 => USize::ReadHeaderButUseProvided(size_of(a.nsel, true_len)),
            3 => USize::UseProvided(size_of(a.nsel, true_len)),
            4 => USize::ReadHeaderButUseProvided(None),
            _ => USize::UseProvided(None),
        });
        opts.memlimit = mem_of(a.memsel);
        // entry: mostly the format's own decoder, sometimes a foreign one
        let native = match &a.base {
            AbsBase::Lzma(_) => 0,
            AbsBase::Lzma2(_) => 1,
            AbsBase::Xz(_) => 2,
            AbsBase::Random(_) => (a.entry_sel % 3) as usize,
        };
        let script = || -> Vec<Call> {
            let mut v = Vec::new();
            let mut planned = 0usize;
            let mut i = 0;
            while planned < input.len() && i < 300 {
                let (k, sel) = a.calls[i % a.calls.len()];
                match k {
                    0 => v.push(Call::Flush),
                    1 => v.push(Call::GetOutput),
                    2 => v.push(Call::WriteOnce(0)),
                    3 | 4 => {
                        let p = 1 + sel as usize % 9;
                        planned += p;
                        v.push(Call::WriteOnce(p));
                    }
                    5 => {
                        let p = 1 + sel as usize % 64;
                        planned += p;
                        v.push(Call::Write(p));
                    }
                    _ => {
                        let p = 1 + sel as usize % (input.len() - planned).max(1);
                        planned += p;
                        v.push(Call::Write(p));
                    }
                }
                i += 1;
            }
            v.push(Call::Write(usize::MAX / 2));
            v.push(Call::WriteOnce(3));
            v
        };
        let entry = match (a.entry_sel, native) {
            (0..=5, 0) => Entry::Lzma(opts),
            (6..=9, 0) => {
                let mut o = opts;
                o.allow_incomplete = a.allow_incomplete;
                Entry::Stream { opts: o, script: script() }
            }
            (10..=12, 0) => Entry::RawLzma {
                lc: if a.raw.3 % 3 == 0 { a.raw.0 } else { props.lc },
                lp: if a.raw.3 % 3 == 0 { a.raw.1 } else { props.lp },
                pb: if a.raw.3 % 3 == 0 { a.raw.2 } else { props.pb },
                dict: dict_of(a.raw.4),
                size: size_of(a.nsel, true_len),
                memlimit: mem_of(a.memsel),
                again: match a.osel % 4 {
                    0 => None,
                    1 => Some(None),
                    2 => Some(Some(None)),
                    _ => Some(Some(size_of(a.nsel.rotate_left(3), true_len))),
                },
            },
            (0..=9, 1) => Entry::Lzma2,
            (10..=12, 1) => Entry::RawLzma2 { again: a.osel % 2 == 0 },
            (0..=12, 2) => Entry::Xz,
            // foreign decoders on this input
            (13, _) => Entry::Lzma(opts),
            (14, _) => Entry::Lzma2,
            _ => Entry::Xz,
        };
        // raw LZMA wants the header-less payload most of the time
        let input = match (&entry, &a.base) {
            (Entry::RawLzma { .. }, AbsBase::Lzma(f)) if a.raw.3 % 5 != 0 => {
                let hl = if f.h13 { 13 } else { 5 };
                if input.len() > hl {
                    input[hl..].to_vec()
                } else {
                    input
                }
            }
            _ => input,
        };
        // the output is known only for an unmutated LZMA stream decoded with its own properties
        let native_lzma = match &entry {
            Entry::Lzma(_) | Entry::Stream { .. } => true,
            Entry::RawLzma { lc, lp, pb, .. } => *lc == props.lc && *lp == props.lp && *pb == props.pb,
            _ => false,
        };
        let known_output = if output_known && a.muts.is_empty() && native_lzma { Some(true_len) } else { None };
        Case { entry, input, kind, known_output }
    }
    fn fixed_cases(&self, tier: Tier) -> Vec<Case> {
        // the long / many-chunk LZMA2 streams of C02's fixed batch, as robustness inputs
        let mut v = Vec::new();
        for c in super::c02::C02.fixed_cases(tier) {
            if let Ok(enc) = crate::refmodel::lzma2::write_lzma2(&c.chunks, false) {
                v.push(Case { entry: Entry::Lzma2, input: enc.bytes.clone(), kind: "lzma2".into(), known_output: None });
                v.push(Case { entry: Entry::RawLzma2 { again: true }, input: enc.bytes.clone(), kind: "lzma2".into(), known_output: None });
                let xz = super::c02::xz_wrap(&enc.bytes, &enc.output, 1);
                v.push(Case { entry: Entry::Xz, input: xz, kind: "xz".into(), known_output: None });
            }
        }
        // LZMA2 inside LZMA2 (two chained LZMA2 filters): lzma-rs decodes such chains
        {
            use crate::refmodel::lzma2::{write_lzma2, Chunk};
            use crate::refmodel::xz::{write_xz, Mut, XzBlock, XzSpec};
            let content: Vec<u8> = (0..50_000u32).map(|i| (i.wrapping_mul(2654435761) >> 20) as u8).collect();
            let inner = write_lzma2(
                &content.chunks(7000).enumerate().map(|(i, d)| Chunk::Raw { reset_dict: i == 0, data: d.to_vec() }).collect::<Vec<_>>(),
                false,
            )
            .unwrap();
            let outer = write_lzma2(
                &inner.bytes.chunks(9999).enumerate().map(|(i, d)| Chunk::Raw { reset_dict: i == 0, data: d.to_vec() }).collect::<Vec<_>>(),
                false,
            )
            .unwrap();
            for (hp, hu) in [(false, false), (true, true)] {
                let spec = XzSpec {
                    check: 4,
                    blocks: vec![XzBlock { has_packed: hp, has_unpacked: hu, extra_pad4: 0, dict_prop: 20, payload: outer.bytes.clone(), content: content.clone() }],
                };
                let f = write_xz(&spec, Some(&Mut::ExtraFilter { b: 0, id: 0x21, props: vec![20] }));
                v.push(Case { entry: Entry::Xz, input: f.bytes, kind: "xz".into(), known_output: None });
            }
        }
        v
    }
    fn rule(&self) -> String {
        "a fixed batch (an LZMA2 stream of 70000 chunks; a 20 MiB single-epoch LZMA2 history, raw and inside .xz) plus: proptest generates an input {valid LZMA / LZMA2 / XZ stream from the grammar generators; byte-level structured mutations of it (bit flips, byte sets, 4/8-byte field extremes 0 / 0xFF.. / 2^31 / 2^32-1, truncation, duplication, deletion, appended bytes); grammar-level near-valid XZ files with one sealed field set to an extreme (sizes up to 2^63-1, header size byte 0x40/0x80/0xC0/0xFF, record count 2^62, backward size 2^32-1, every check id incl. SHA-256 and unassigned ones ...); uniformly random strings} and an entry point {lzma_decompress_with_options with every option shape and memlimit; lzma2_decompress; xz_decompress; Stream with arbitrary write/flush/get_output scripts, allow_incomplete on/off; raw::LzmaDecoder with lc<=8, lp<=4, pb<=4, dict_size in {0,1,2,7,300,4096,65536,2^31-1,2^31,2^32-1}, any unpacked size, any memlimit, decompress / reset(..) / decompress; raw::Lzma2Decoder incl. reuse; occasionally a decoder of another format}. Oracle: (a) the call returns Ok or Err - a panic (also integer overflow / division by zero in the overflow-checked build) is a violation; (b) it returns (sink capped at 32 MiB, so work is O(input + cap); a case running > 120 s is reported as non-termination); (c) peak growth of live heap during the call (counting allocator, non-storing sink) <= 16 MiB + 64 KiB x input length + 8 x bytes accepted by the sink. Non-trivial = the input passes the header checks of its format (reaches the payload loop); distinct = SipHash of (entry, input). Judged on the overflow-checked and on the release build.".into()
    }
    fn assumptions(&self) -> Vec<String> {
        vec![
            "termination and memory are budgets with wide stated constants, not decided".into(),
            "memory bound derivation: no LZMA stream can produce more than ~7.1 KiB per input byte (rep0 copy of 273 bytes at the probability ceiling costs 0.31 bit); LZMA2/XZ legitimately buffer a whole block, Vec growth holds old+new buffers; literal tables for lc+lp=12 take 6 MiB".into(),
        ]
    }
    fn required_classes(&self, tier: Tier) -> Vec<(&'static str, u64)> {
        let k = tier.pick(1, 10);
        vec![
            ("entry:Lzma", 5000 * k),
            ("entry:Lzma2", 3000 * k),
            ("entry:Xz", 5000 * k),
            ("entry:Stream", 3000 * k),
            ("entry:RawLzma", 2000 * k),
            ("entry:RawLzma2", 1000 * k),
            ("input:xz-sealed", 3000 * k),
            ("input:mutated", 10_000 * k),
            ("input:random", 2000 * k),
            ("verdict:Ok", 3000 * k),
            ("verdict:Err", 10_000 * k),
            ("raw dict_size 0", 100 * k),
            ("reaches payload", 10_000 * k),
            ("tight heap bound (output known)", 3000 * k),
            ("tight heap bound, output > 1 MiB", 100 * k),
        ]
    }

    fn judge(&self, c: &mut Case, st: &mut LocalStats) -> Judgement {
        let sink_cfg = SinkCfg {
            discard: true,
            cap: Some(SINK_CAP),
            ..Default::default()
        };
        let io = Io {
            sink: sink_cfg.clone(),
            fail_read_at: None,
            fail_read_sticky: false,
            ..Default::default()
        };
        st.eval();
        let ((verdict, sink_total), mem) = alloc::measure(|| -> (Verdict, u64) {
            match &c.entry {
                Entry::Lzma(o) => {
                    let r = sut::lzma_decompress(&c.input, o, &ReaderKind::Slice, &io);
                    (r.verdict, r.sink.total)
                }
                Entry::Lzma2 => {
                    let r = sut::lzma2_decompress(&c.input, &ReaderKind::Slice, &io);
                    (r.verdict, r.sink.total)
                }
                Entry::Xz => {
                    let r = sut::xz_decompress(&c.input, &ReaderKind::Slice, &io);
                    (r.verdict, r.sink.total)
                }
                Entry::Stream { opts, script } => {
                    let r = sut::stream_run(&c.input, opts, script, &sink_cfg, true);
                    (r.verdict, r.sink.total)
                }
                Entry::RawLzma { lc, lp, pb, dict, size, memlimit, again } => {
                    let mut sink = SinkState::new(sink_cfg.clone());
                    let res = sut::guarded(|| {
                        let params = LzmaParams::new(LzmaProperties { lc: *lc, lp: *lp, pb: *pb }, *dict, *size);
                        let mut d = match LzmaDecoder::new(params, memlimit.map(|m| m as usize)) {
                            Ok(d) => d,
                            Err(e) => return Err(format!("{:?}", e)),
                        };
                        let mut rd: &[u8] = &c.input;
                        let r1 = d.decompress(&mut rd, &mut sink).map_err(|e| format!("{:?}", e));
                        if let Some(x) = again {
                            d.reset(*x);
                            let mut rd: &[u8] = &c.input;
                            let _ = d.decompress(&mut rd, &mut sink);
                        }
                        r1
                    });
                    let v = match res {
                        Ok(Ok(())) => Verdict::Ok,
                        Ok(Err(e)) => Verdict::Err(e),
                        Err(p) => Verdict::Panic(p),
                    };
                    (v, sink.total)
                }
                Entry::RawLzma2 { again } => {
                    let mut sink = SinkState::new(sink_cfg.clone());
                    let res = sut::guarded(|| {
                        let mut d = Lzma2Decoder::new();
                        let mut rd: &[u8] = &c.input;
                        let r1 = d.decompress(&mut rd, &mut sink).map_err(|e| format!("{:?}", e));
                        if *again {
                            let mut rd: &[u8] = &c.input;
                            let _ = d.decompress(&mut rd, &mut sink);
                            d.reset();
                            let mut rd: &[u8] = &c.input;
                            let _ = d.decompress(&mut rd, &mut sink);
                        }
                        r1
                    });
                    let v = match res {
                        Ok(Ok(())) => Verdict::Ok,
                        Ok(Err(e)) => Verdict::Err(e),
                        Err(p) => Verdict::Panic(p),
                    };
                    (v, sink.total)
                }
            }
        });
        let ename = match &c.entry {
            Entry::Lzma(_) => "Lzma",
            Entry::Lzma2 => "Lzma2",
            Entry::Xz => "Xz",
            Entry::Stream { .. } => "Stream",
            Entry::RawLzma { .. } => "RawLzma",
            Entry::RawLzma2 { .. } => "RawLzma2",
        };
        st.class(&format!("entry:{}", ename));
        for k in c.kind.split('+') {
            st.class(&format!("input:{}", k));
        }
        st.class(&format!("verdict:{}", verdict.kind()));
        if let Entry::RawLzma { dict: 0, .. } = &c.entry {
            st.class("raw dict_size 0");
        }
        st.max("max_peak_heap_growth", mem.peak_growth as u64);
        st.max("max_sink_bytes", sink_total);
        if sink_total > (1 << 20) {
            st.class("output > 1 MiB (bomb-like)");
        }
        if reaches_payload(&c.entry, &c.input) {
            st.class("reaches payload");
            st.nontrivial(c);
            st.sample(&format!("{} / {} / {}", ename, c.kind, verdict.kind()), || {
                json!({"entry": entry_text(&c.entry), "input": hex_prefix(&c.input, 40), "len": c.input.len(), "verdict": verdict.brief(), "peak_heap": mem.peak_growth, "sink_bytes": sink_total})
            });
        }
        if let Verdict::Panic(p) = &verdict {
            return Judgement::violation(
                format!("panic:{}", sut::panic_site(p)),
                format!("panic: {} ; entry {} ; input({}B,{})={}", p, entry_text(&c.entry), c.input.len(), c.kind, hex_prefix(&c.input, 64)),
            );
        }
        if let Some(l) = c.known_output {
            st.class("tight heap bound (output known)");
            if l > (1 << 20) {
                st.class("tight heap bound, output > 1 MiB");
            }
            let tight = (16usize << 20) + 4 * l as usize;
            if mem.peak_growth > tight {
                return Judgement::violation(
                    "memory-out-of-proportion",
                    format!(
                        "peak heap growth {} bytes (largest single request {}) although the stream can produce at most {} bytes (bound 16 MiB + 4 x output = {}) ; entry {} ; input({}B,{})={}",
                        mem.peak_growth,
                        mem.biggest,
                        l,
                        tight,
                        entry_text(&c.entry),
                        c.input.len(),
                        c.kind,
                        hex_prefix(&c.input, 64)
                    ),
                );
            }
        }
        let bound = (16usize << 20) + (64 << 10) * c.input.len() + 8 * sink_total as usize;
        if mem.peak_growth > bound {
            return Judgement::violation(
                "memory-out-of-proportion",
                format!(
                    "peak heap growth {} bytes (largest single request {}) exceeds 16 MiB + 64 KiB x {} input bytes + 8 x {} sink bytes = {} ; entry {} ; input({})={}",
                    mem.peak_growth,
                    mem.biggest,
                    c.input.len(),
                    sink_total,
                    bound,
                    entry_text(&c.entry),
                    c.kind,
                    hex_prefix(&c.input, 64)
                ),
            );
        }
        Judgement::Pass
    }
}

fn entry_text(e: &Entry) -> String {
    match e {
        Entry::Stream { opts, script } => format!("Stream {{ opts: {:?}, script: {} calls {:?}… }}", opts, script.len(), &script[..script.len().min(8)]),
        other => format!("{:?}", other),
    }
}

/// cheap classifier: does the input get past the header checks of the entry's format?
pub fn reaches_payload(e: &Entry, input: &[u8]) -> bool {
    match e {
        Entry::Lzma(o) | Entry::Stream { opts: o, .. } => input.len() >= o.header_len() + 5 && input[0] < 225,
        Entry::RawLzma { dict, .. } => input.len() >= 5 && *dict != 0,
        Entry::Lzma2 | Entry::RawLzma2 { .. } => match input.first() {
            Some(1) | Some(2) => input.len() >= 4,
            Some(c) if *c >= 0x80 => input.len() >= 11,
            _ => false,
        },
        Entry::Xz => {
            input.len() >= 13
                && input[..6] == crate::refmodel::xz::HEADER_MAGIC
                && crc32(&input[6..8]) == u32::from_le_bytes(input[8..12].try_into().unwrap())
                && input[6] == 0
                && matches!(input[7], 0 | 1 | 4 | 10)
        }
    }
}
