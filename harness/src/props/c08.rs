//! C08 — LZMA size and end-of-stream rules hold for every option combination.

use crate::gen::program::*;
use crate::refmodel::dec::{decode_lzma, DecErr, EndKind};
use crate::refmodel::enc::{encode_lzma, lzma_header, lzma_header5, EncodedLzma};
use crate::refmodel::model::Props;
use crate::refmodel::program::{interpret, program_text, Op};
use crate::runner::*;
use crate::sut::{self, Opts, USize};
use proptest::prelude::*;
use serde::{Deserialize, Serialize};
use serde_json::json;

#[derive(Clone, Copy, Debug, PartialEq, Eq, Hash, Serialize, Deserialize)]
pub struct Cell {
    /// 0 ReadFromHeader, 1 ReadHeaderButUseProvided(None), 2 ReadHeaderButUseProvided(Some n),
    /// 3 UseProvided(None), 4 UseProvided(Some n)
    pub opt: u8,
    /// value of the 8-byte header size field (only present with 13-byte headers)
    pub field: u64,
    pub n: u64,
    pub trailing: u8,
    /// truncate the whole file to this many bytes (after adding trailing bytes)
    pub trunc: Option<usize>,
}

#[derive(Clone, Debug, Hash, Serialize, Deserialize)]
pub struct Case {
    pub props: Props,
    pub dict: u32,
    pub ops: Vec<Op>,
    pub marker: bool,
    pub trail_seed: u8,
    pub focus: Option<Cell>,
}

pub struct C08;

fn trailing_bytes(k: u8, seed: u8) -> Vec<u8> {
    (0..k).map(|i| seed.wrapping_mul(31).wrapping_add(i.wrapping_mul(97)) ^ 0x5A).collect()
}

fn opts_of(cell: &Cell) -> Opts {
    Opts::with(match cell.opt {
        0 => USize::ReadFromHeader,
        1 => USize::ReadHeaderButUseProvided(None),
        2 => USize::ReadHeaderButUseProvided(Some(cell.n)),
        3 => USize::UseProvided(None),
        _ => USize::UseProvided(Some(cell.n)),
    })
}

fn effective_size(cell: &Cell) -> Option<u64> {
    match cell.opt {
        0 => {
            if cell.field == u64::MAX {
                None
            } else {
                Some(cell.field)
            }
        }
        1 | 3 => None,
        _ => Some(cell.n),
    }
}

fn build_file(c: &Case, enc: &EncodedLzma, cell: &Cell) -> (Vec<u8>, usize) {
    let mut f = if cell.opt >= 3 {
        lzma_header5(c.props, c.dict)
    } else {
        let mut h = lzma_header(c.props, c.dict, None);
        h[5..13].copy_from_slice(&cell.field.to_le_bytes());
        h
    };
    let hl = f.len();
    f.extend_from_slice(&enc.payload);
    f.extend_from_slice(&trailing_bytes(cell.trailing, c.trail_seed));
    if let Some(t) = cell.trunc {
        f.truncate(t);
    }
    (f, hl)
}

/// interesting size values for a program
fn size_values(enc: &EncodedLzma, ops: &[Op], l: u64) -> Vec<(u64, &'static str)> {
    let mut v = vec![
        (l, "L"),
        (l + 1, "L+1"),
        (0, "0"),
        (1u64 << 40, "2^40"),
        (1u64 << 63, "2^63"),
        (u64::MAX - 1, "max-1"),
        (u64::MAX, "u64::MAX"),
        (l + (1u64 << 32), "L+2^32"),
        (l + (3u64 << 32), "L+3*2^32"),
        (l.wrapping_sub(1u64 << 32), "L-2^32 (wrapped)"),
        (1u64 << 31, "2^31"),
        ((1u64 << 32) - 1, "2^32-1"),
        (1u64 << 32, "2^32"),
        (l + (1u64 << 31), "L+2^31"),
        (l | (1u64 << 63), "L|2^63"),
    ];
    if l > 0 {
        v.push((l - 1, "L-1"));
    }
    // inside a copy's span, and on a symbol boundary < L
    let mut prev = 0u64;
    let mut inside = None;
    let mut boundary = None;
    for (i, op) in ops.iter().enumerate() {
        let p = enc.table[i].produced;
        if op.is_copy() && p - prev >= 2 && inside.is_none() {
            inside = Some(prev + 1 + (p - prev - 2) / 2);
        }
        if p < l && p > 0 {
            boundary = Some(p);
        }
        prev = p;
    }
    if let Some(x) = inside {
        v.push((x, "inside-copy"));
    }
    if let Some(x) = boundary {
        v.push((x, "boundary<L"));
    }
    v
}

impl Property for C08 {
    type Abs = (Props, u32, Vec<AbsOp>, bool, u8);
    type Case = Case;
    fn id(&self) -> &'static str {
        "C08"
    }
    fn cases(&self, tier: Tier) -> u32 {
        tier.pick(2_500, 25_000)
    }
    fn strategy(&self, tier: Tier) -> BoxedStrategy<Self::Abs> {
        let n = tier.pick(24, 40);
        (props_any(), dict_header(), abs_program(n, 6), any::<bool>(), any::<u8>()).boxed()
    }
    fn concretize(&self, a: &Self::Abs) -> Case {
        Case {
            props: a.0,
            dict: a.1,
            ops: concretize(
                &a.2,
                ConcCfg {
                    dict: (a.1 as u64).max(4096),
                    max_out: 4000,
                    max_ops: 200,
                },
            ),
            marker: a.3,
            trail_seed: a.4,
            focus: None,
        }
    }
    fn rule(&self) -> String {
        "proptest generates a symbol program (true length L) with or without end marker; per program the check ENUMERATES the matrix {ReadFromHeader, ReadHeaderButUseProvided(None|Some n), UseProvided(None|Some n)} x header size field {all-ones, L, L+-1, 0, 2^40, 2^63, max-1, a size inside a copy's span, a symbol boundary < L} x n (same value set) x trailing bytes {0,1,8}, plus truncation of the file at every offset for the ReadFromHeader cells. Oracle: the reference decoder run with the effective size the property's option table defines (provided value overrides the header; all-ones = none); lzma-rs must give the same verdict and output, and on success with a size in effect leave exactly the unread tail in the reader (13/13/5 header bytes). The reference decoder's verdicts are themselves checked against constructive expectations (size on a symbol boundary <= L => Ok prefix; inside a copy => Err; marker then trailing byte => Err; no expectation is attached to sizes beyond L, because the coder's flush bytes can decode into a few more symbols). Non-trivial = effective size differs from L, or marker and size both present, or trailing bytes, or truncation; distinct = (program hash, cell).".into()
    }
    fn assumptions(&self) -> Vec<String> {
        vec!["leniency built into the oracle: with no size in effect, input ending exactly on a symbol boundary with range-coder code == 0 is accepted without a marker (LZMA SDK 'may be finished without marker'); computed by the reference decoder, nothing wider is accepted".into()]
    }
    fn required_classes(&self, tier: Tier) -> Vec<(&'static str, u64)> {
        let m = tier.pick(1, 10);
        vec![
            ("expect:Ok", 20_000 * m),
            ("expect:Err", 20_000 * m),
            ("size:inside-copy", 1000 * m),
            ("size:boundary<L", 1000 * m),
            ("err:marker before size", 1000 * m),
            ("err:overshoot", 1000 * m),
            ("err:input exhausted", 5000 * m),
            ("err:bytes after marker", 1000 * m),
            ("ok:lenient eof (code==0, no marker)", 1),
            ("truncation", 20_000 * m),
        ]
    }

    fn judge(&self, c: &mut Case, st: &mut LocalStats) -> Judgement {
        let eff_dict = (c.dict as u64).max(4096);
        let expected = match interpret(&c.ops, eff_dict) {
            Ok(o) => o,
            Err(e) => return Judgement::HarnessBug(format!("invalid program {:?}", e)),
        };
        let l = expected.len() as u64;
        let enc = encode_lzma(c.props, &c.ops, if c.marker { Some(2) } else { None });
        let ph = hash64(&(c.props, c.dict, &c.ops, c.marker, c.trail_seed));
        st.sample(if c.marker { "with marker" } else { "without marker" }, || {
            json!({"props": c.props, "dict": c.dict, "program": program_text(&c.ops, 20), "L": l, "marker": c.marker, "payload": hex_prefix(&enc.payload, 32)})
        });
        // ---- build the list of cells
        let mut cells: Vec<(Cell, &'static str)> = Vec::new();
        if let Some(f) = c.focus {
            cells.push((f, "focus"));
        } else {
            let sizes = size_values(&enc, &c.ops, l);
            for trailing in [0u8, 1, 8] {
                // option 0: header field decides
                cells.push((Cell { opt: 0, field: u64::MAX, n: 0, trailing, trunc: None }, "all-ones"));
                for (s, name) in &sizes {
                    cells.push((Cell { opt: 0, field: *s, n: 0, trailing, trunc: None }, name));
                }
                // options 1 and 3: nothing in effect, garbage / consistent header field
                for field in [u64::MAX, l, 0, 1 << 40] {
                    cells.push((Cell { opt: 1, field, n: 0, trailing, trunc: None }, "none"));
                }
                cells.push((Cell { opt: 3, field: 0, n: 0, trailing, trunc: None }, "none"));
                // options 2 and 4: provided n overrides the field
                for (s, name) in &sizes {
                    for field in [u64::MAX, l, 0, l + 1] {
                        cells.push((Cell { opt: 2, field, n: *s, trailing, trunc: None }, name));
                    }
                    cells.push((Cell { opt: 4, field: 0, n: *s, trailing, trunc: None }, name));
                }
            }
            // truncations (ReadFromHeader; size unknown and size = L)
            let full = 13 + enc.payload.len();
            for t in 0..full {
                cells.push((Cell { opt: 0, field: u64::MAX, n: 0, trailing: 0, trunc: Some(t) }, "trunc"));
                cells.push((Cell { opt: 0, field: l, n: 0, trailing: 0, trunc: Some(t) }, "trunc"));
            }
            for t in 0..(5 + enc.payload.len()) {
                cells.push((Cell { opt: 4, field: 0, n: l, trailing: 0, trunc: Some(t) }, "trunc"));
            }
        }
        for (cell, name) in cells {
            let (file, hl) = build_file(c, &enc, &cell);
            let s_eff = effective_size(&cell);
            // ---- reference verdict
            let reference: Result<(Vec<u8>, usize, EndKind), DecErr> = if file.len() < hl {
                Err(DecErr::InputExhausted)
            } else {
                decode_lzma(c.props, eff_dict, s_eff, &file[hl..], 1 << 20).map(|(o, r, _)| (o, r.consumed, r.end))
            };
            // ---- constructive expectations on the reference itself
            if cell.trunc.is_none() && cell.trailing == 0 {
                let want_ok: Option<bool> = match s_eff {
                    Some(s) if s <= l => Some(s == 0 || enc.table[..c.ops.len()].iter().any(|t| t.produced == s)),
                    // a size beyond L carries no constructive expectation: the range coder's
                    // flush bytes (already in the decoder's code register) can happen to
                    // decode into further symbols without reading any input
                    Some(_) => None,
                    None if c.marker => Some(true),
                    None => None, // lenient rule: depends on code == 0
                };
                if let Some(w) = want_ok {
                    if reference.is_ok() != w {
                        return Judgement::HarnessBug(format!(
                            "reference decoder verdict {:?} contradicts the constructive expectation {} for cell {:?}",
                            reference.as_ref().map(|x| x.1),
                            w,
                            cell
                        ));
                    }
                }
            }
            if cell.trunc.is_none() && cell.trailing > 0 && s_eff.is_none() && c.marker && reference.is_ok() {
                return Judgement::HarnessBug("reference accepts bytes after the marker".into());
            }
            // ---- classification
            st.eval();
            let nontrivial = s_eff != Some(l) || c.marker || cell.trailing > 0 || cell.trunc.is_some();
            if nontrivial {
                st.nontrivial(&(ph, cell));
            }
            if cell.trunc.is_some() {
                st.class("truncation");
            } else {
                st.class(&format!("size:{}", name));
                st.class(&format!("opt:{}", cell.opt));
            }
            match &reference {
                Ok((_, _, end)) => {
                    st.class("expect:Ok");
                    if *end == EndKind::LenientEof {
                        st.class("ok:lenient eof (code==0, no marker)");
                    }
                    if *end == EndKind::Marker {
                        st.class("ok:marker");
                    }
                }
                Err(e) => {
                    st.class("expect:Err");
                    st.class(match e {
                        DecErr::InputExhausted => "err:input exhausted",
                        DecErr::BadDistance { .. } => "err:bad distance (garbage decoded)",
                        DecErr::MarkerNotAtEnd => "err:bytes after marker",
                        DecErr::SizeMismatch { produced, want } if produced > want => "err:overshoot",
                        DecErr::SizeMismatch { .. } => "err:marker before size",
                        DecErr::OutputCap => "err:cap",
                    });
                }
            }
            // ---- system under test: one-shot and streaming
            let opts = opts_of(&cell);
            let r = sut::lzma_decompress_simple(&file, &opts);
            let describe = |what: &str| -> String {
                format!(
                    "{}: cell {:?} (effective size {:?}, L={}, marker={}) props={:?} ops=[{}] file={} : reference {:?} vs lzma-rs {} ({} bytes out, {} consumed)",
                    what,
                    cell,
                    s_eff,
                    l,
                    c.marker,
                    c.props,
                    program_text(&c.ops, 30),
                    hex_prefix(&file, 40),
                    reference.as_ref().map(|(o, cons, e)| (o.len(), *cons, *e)),
                    r.verdict.brief(),
                    r.out.len(),
                    r.consumed
                )
            };
            match (&reference, &r.verdict) {
                (Ok((out, consumed, _)), sut::Verdict::Ok) => {
                    if &r.out != out {
                        c.focus = Some(cell);
                        return Judgement::violation("wrong-output", describe("accepted with wrong output"));
                    }
                    if let Some(s) = s_eff {
                        if r.out.len() as u64 != s {
                            c.focus = Some(cell);
                            return Judgement::violation("size-not-honoured", describe("success but produced != size in effect"));
                        }
                        // a stream carrying both a size and an end marker: the property does not
                        // say whether the marker that follows the last byte belongs to the payload
                        let through_marker = if c.marker && s == l && cell.trunc.is_none() {
                            Some(hl + enc.table.last().map(|t| t.consumed as usize).unwrap_or(5))
                        } else {
                            None
                        };
                        if r.consumed != hl + consumed && Some(r.consumed) != through_marker {
                            c.focus = Some(cell);
                            return Judgement::violation(
                                "header-or-payload-consumption",
                                describe(&format!("reader position {} != header {} + payload {}", r.consumed, hl, consumed)),
                            );
                        }
                    }
                }
                (Err(_), sut::Verdict::Err(_)) => {}
                (Ok((_, _, EndKind::LenientEof)), sut::Verdict::Err(_)) => {
                    // the property does not demand acceptance without a marker
                    st.class("lenient eof rejected by lzma-rs (allowed)");
                }
                (Ok(_), _) => {
                    c.focus = Some(cell);
                    return Judgement::violation("reject-valid", describe("rules say success, lzma-rs fails"));
                }
                (Err(e), sut::Verdict::Ok) => {
                    c.focus = Some(cell);
                    let sig = match e {
                        DecErr::InputExhausted => "accept:input-exhausted",
                        DecErr::MarkerNotAtEnd => "accept:bytes-after-marker",
                        DecErr::SizeMismatch { produced, want } if produced > want => "accept:overshoot",
                        DecErr::SizeMismatch { .. } => "accept:marker-before-size",
                        _ => "accept:other",
                    };
                    return Judgement::violation(sig, describe("rules say error, lzma-rs succeeds"));
                }
                (Err(_), sut::Verdict::Panic(_)) => {
                    st.class("panic (left to C07)");
                }
            }
            // the streaming decoder obeys the same rules (fed in two pieces)
            if cell.trunc.is_none() || cell.trunc.map(|t| t % 5 == 0).unwrap_or(false) {
                st.eval();
                let cut = file.len() / 2;
                let s = sut::stream_chunked(&file, &opts, &[cut]);
                if file.is_empty() {
                    continue;
                }
                let ok_expected = reference.is_ok();
                let lenient = matches!(reference, Ok((_, _, EndKind::LenientEof)));
                if s.verdict.is_ok() != ok_expected && !s.verdict.is_panic() && !(lenient && s.verdict.is_err()) {
                    c.focus = Some(cell);
                    return Judgement::violation(
                        if ok_expected { "stream:reject-valid" } else { "stream:accept-invalid" },
                        format!("{} ; Stream verdict {}", describe("streaming decoder disagrees with the rules"), s.verdict.brief()),
                    );
                }
                if let (Ok((out, _, _)), true) = (&reference, s.verdict.is_ok()) {
                    if &s.out != out {
                        c.focus = Some(cell);
                        return Judgement::violation("stream:wrong-output", describe("streaming decoder output differs"));
                    }
                }
            }
        }
        Judgement::Pass
    }
}
