//! Helpers shared by the per-property oracles.

use crate::gen::program::len_class;
use crate::refmodel::model::{pos_slot_of, Props};
use crate::refmodel::program::Op;
use crate::runner::LocalStats;
use serde::{Deserialize, Serialize};

#[derive(Clone, Copy, Debug, PartialEq, Eq, Hash, Serialize, Deserialize)]
pub enum Term {
    /// end marker, size unknown; payload is the match length code of the marker
    Marker(u32),
    /// declared size, no marker
    Size,
    /// declared size and a marker after it
    Both(u32),
}

impl Term {
    pub fn marker_len(&self) -> Option<u32> {
        match self {
            Term::Marker(l) | Term::Both(l) => Some(*l),
            Term::Size => None,
        }
    }
    pub fn has_size(&self) -> bool {
        !matches!(self, Term::Marker(_))
    }
}

pub fn classify_props(p: Props, st: &mut LocalStats) {
    if p.lc + p.lp > 4 {
        st.class("props:lc+lp>4");
    } else {
        st.class("props:lc+lp<=4");
    }
    if p.pb != 2 {
        st.class("props:pb!=2");
    }
    if p.lp != 0 {
        st.class("props:lp!=0");
    }
    if p.lc == 8 {
        st.class("props:lc=8");
    }
    if p.lc == 0 {
        st.class("props:lc=0");
    }
    if p.lp == 4 {
        st.class("props:lp=4");
    }
    if p.pb == 0 || p.pb == 4 {
        st.class("props:pb in {0,4}");
    }
}

#[derive(Default, Clone, Debug)]
pub struct ProgShape {
    pub n_copy: usize,
    pub out_len: u64,
    pub max_dist: u64,
    pub max_slot: u32,
    pub straddles: usize,
}

/// Walk a (valid) program, count symbol classes. `dict` is the window size in
/// effect (for wrap-straddle classification).
pub fn classify_program(ops: &[Op], dict: u64, st: &mut LocalStats) -> ProgShape {
    let mut sh = ProgShape::default();
    let mut produced: u64 = 0;
    let mut reps = [0u32; 4];
    let mut prev_copy = false;
    // local tallies (one map update per class at the end)
    let mut lenc = [0u64; 7];
    let mut slots = [0u64; 64];
    let mut repidx = [0u64; 4];
    let mut shortrep = 0u64;
    let mut lits = 0u64;
    let mut matched_lits = 0u64;
    for op in ops {
        let (dist, len): (u64, u64) = match *op {
            Op::Lit(_) => {
                lits += 1;
                if prev_copy {
                    matched_lits += 1;
                }
                prev_copy = false;
                produced += 1;
                continue;
            }
            Op::Match { dist, len } => {
                lenc[len_class(len)] += 1;
                let s = pos_slot_of(dist - 1);
                slots[s as usize] += 1;
                if s > sh.max_slot {
                    sh.max_slot = s;
                }
                reps = [dist - 1, reps[0], reps[1], reps[2]];
                (dist as u64, len as u64)
            }
            Op::ShortRep => {
                shortrep += 1;
                (reps[0] as u64 + 1, 1)
            }
            Op::Rep { idx, len } => {
                lenc[len_class(len)] += 1;
                repidx[idx as usize] += 1;
                let i = idx as usize;
                let d = reps[i];
                for k in (0..i).rev() {
                    reps[k + 1] = reps[k];
                }
                reps[0] = d;
                (d as u64 + 1, len as u64)
            }
        };
        sh.n_copy += 1;
        if dist > sh.max_dist {
            sh.max_dist = dist;
        }
        if dict > 0 {
            let cursor = produced % dict;
            let src = (cursor + dict - (dist % dict)) % dict;
            if cursor + len > dict || src + len > dict {
                sh.straddles += 1;
            }
        }
        if dist == produced {
            st.class("copy:dist==produced");
        }
        if dist == dict {
            st.class("copy:dist==dict");
        }
        if dist < len {
            st.class("copy:overlapping(dist<len)");
        }
        prev_copy = true;
        produced += len;
    }
    sh.out_len = produced;
    let names = ["len:2", "len:3-9", "len:10", "len:11-17", "len:18", "len:19-272", "len:273"];
    for (i, n) in lenc.iter().enumerate() {
        st.class_n(names[i], *n);
    }
    for (s, n) in slots.iter().enumerate() {
        if *n > 0 {
            st.class_n(&format!("slot:{:02}", s), *n);
        }
    }
    for (i, n) in repidx.iter().enumerate() {
        st.class_n(&format!("rep:idx{}", i), *n);
    }
    st.class_n("shortrep", shortrep);
    st.class_n("literal", lits);
    st.class_n("literal:matched-mode", matched_lits);
    st.class_n("copy:straddles-wrap", sh.straddles as u64);
    st.max("max_pos_slot", sh.max_slot as u64);
    st.max("max_output_len", sh.out_len);
    if dict > 0 && sh.out_len >= 3 * dict {
        st.class("output>=3*dict");
    }
    sh
}

/// first differing index of two byte strings, for messages
pub fn first_diff(a: &[u8], b: &[u8]) -> String {
    let n = a.len().min(b.len());
    for i in 0..n {
        if a[i] != b[i] {
            return format!(
                "lengths {}/{}; first difference at byte {}: {:02x} vs {:02x}",
                a.len(),
                b.len(),
                i,
                a[i],
                b[i]
            );
        }
    }
    format!("lengths {}/{}; common prefix equal", a.len(), b.len())
}
