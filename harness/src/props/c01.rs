//! C01 — LZMA decoding is exact for every well-formed stream.

use super::common::*;
use crate::gen::program::*;
use crate::refmodel::dec::decode_lzma;
use crate::refmodel::enc::{encode_lzma, lzma_header, lzma_header5};
use crate::refmodel::model::Props;
use crate::refmodel::program::{interpret, program_text, Op};
use crate::runner::*;
use crate::sut::{self, Io, Opts, ReaderKind, USize};
use proptest::prelude::*;
use serde::{Deserialize, Serialize};
use serde_json::json;

#[derive(Clone, Copy, Debug, PartialEq, Eq, Hash, Serialize, Deserialize)]
pub enum Container {
    /// 13-byte .lzma header, default options
    Header13,
    /// 5-byte header, UseProvided(size)
    Header5,
    /// no header: raw decoder API
    Raw,
    /// raw decoder object constructed for another size, then reset(Some(size))
    RawReset { init: u64 },
}

#[derive(Clone, Debug, Hash, Serialize, Deserialize)]
pub struct Case {
    pub props: Props,
    /// dictionary size as declared (header field, or raw parameter)
    pub dict: u32,
    pub ops: Vec<Op>,
    pub term: Term,
    pub container: Container,
    /// selector for the metamorphic re-declaration of the dictionary size
    pub redeclare_sel: u16,
}

#[derive(Clone, Debug)]
pub struct Abs {
    props: Props,
    dict: u32,
    container: Container,
    prog: Vec<AbsOp>,
    term_sel: u8,
    marker_len_sel: u16,
    redeclare_sel: u16,
    max_out: usize,
}

pub struct C01;

pub fn effective_dict(container: Container, dict: u32) -> u64 {
    match container {
        Container::Raw | Container::RawReset { .. } => dict as u64,
        _ => (dict as u64).max(4096),
    }
}

fn term_of(sel: u8, mlen_sel: u16) -> Term {
    // marker length code: mostly the conventional 2, sometimes anything legal
    let ml = if mlen_sel % 4 == 0 {
        pick(mlen_sel, 2, 273) as u32
    } else {
        2
    };
    match sel % 5 {
        0 | 1 => Term::Marker(ml),
        2 | 3 => Term::Size,
        _ => Term::Both(ml),
    }
}

fn abs_strategy(max_ops: usize, max_run: u16, max_out: usize) -> impl Strategy<Value = Abs> {
    let cont = prop_oneof![
        3 => (Just(Container::Header13), dict_header()),
        1 => (Just(Container::Header5), dict_header()),
        4 => (Just(Container::Raw), dict_raw()),
        1 => ((0u64..40).prop_map(|init| Container::RawReset { init }), dict_raw()),
    ];
    (
        props_any(),
        cont,
        abs_program(max_ops, max_run),
        any::<u8>(),
        any::<u16>(),
        any::<u16>(),
    )
        .prop_map(move |(props, (container, dict), prog, term_sel, marker_len_sel, redeclare_sel)| Abs {
            props,
            dict,
            container,
            prog,
            term_sel,
            marker_len_sel,
            redeclare_sel,
            max_out,
        })
}

/// Deterministic big-history program: grow the output to `target` bytes with
/// long copies, visiting distances around every power of two on the way.
pub fn big_history_program(target: u64, salt: u64) -> Vec<Op> {
    let mut ops = Vec::new();
    let mut produced = 0u64;
    // a non-periodic seed block so wrong distances change bytes
    let mut x = 0x9E37_79B9_7F4A_7C15u64 ^ salt;
    for _ in 0..64 {
        x ^= x << 13;
        x ^= x >> 7;
        x ^= x << 17;
        ops.push(Op::Lit((x >> 32) as u8));
        produced += 1;
    }
    let mut k = 2u32;
    while produced < target {
        // visit slot boundaries that have become reachable
        while k < 32 && (1u64 << k) + 2 <= produced {
            for d0 in [(1u64 << k) - 1, 1u64 << k, (1u64 << k) + 1, (3u64 << (k - 1))] {
                if d0 + 1 <= produced && d0 < 0xFFFF_FFFF {
                    let len = 2 + ((d0 ^ salt) % 7) as u32;
                    ops.push(Op::Match {
                        dist: (d0 + 1) as u32,
                        len,
                    });
                    produced += len as u64;
                    x ^= x << 13;
                    x ^= x >> 7;
                    x ^= x << 17;
                    ops.push(Op::Lit((x >> 24) as u8));
                    produced += 1;
                }
            }
            k += 1;
        }
        // grow quickly: copy from far back (distance ~ produced*5/8), max length
        let dist = ((produced * 5 / 8).max(1)).min(0xFFFF_FFF0);
        ops.push(Op::Match {
            dist: dist as u32,
            len: 273,
        });
        produced += 273;
        if ops.len() % 5 == 0 {
            ops.push(Op::Rep { idx: 0, len: 273 });
            produced += 273;
        }
    }
    ops
}

/// Three-way agreement of the reference model (interpreter / encoder+decoder /
/// liblzma) on one case. Err(text) = harness problem.
pub fn reference_check(
    c: &Case,
    st: &mut LocalStats,
) -> Result<(Vec<u8>, crate::refmodel::enc::EncodedLzma, Option<u64>), String> {
    let eff = effective_dict(c.container, c.dict);
    let expected = match interpret(&c.ops, eff) {
        Ok(o) => o,
        Err(e) => return Err(format!("generated program invalid: {:?}", e)),
    };
    let enc = encode_lzma(c.props, &c.ops, c.term.marker_len());
    if enc.hist != expected {
        return Err("encoder history != interpreter output".into());
    }
    let size = if c.term.has_size() {
        Some(expected.len() as u64)
    } else {
        None
    };
    match decode_lzma(c.props, eff, size, &enc.payload, expected.len() + (1 << 20)) {
        Ok((out, r, table)) => {
            if out != expected {
                return Err(format!(
                    "reference decoder != interpreter: {}",
                    first_diff(&out, &expected)
                ));
            }
            let want_consumed = match c.term {
                Term::Both(_) if enc.table.len() >= 2 => {
                    enc.table[enc.table.len() - 2].consumed as usize
                }
                Term::Both(_) => 5,
                _ => enc.payload.len(),
            };
            if r.consumed != want_consumed {
                return Err(format!(
                    "reference decoder consumed {} of {} (want {})",
                    r.consumed,
                    enc.payload.len(),
                    want_consumed
                ));
            }
            let n = table.len().min(enc.table.len());
            if table[..n] != enc.table[..n] {
                return Err("per-symbol tables differ (enc vs ref dec)".into());
            }
        }
        Err(e) => return Err(format!("reference decoder rejects own stream: {:?}", e)),
    }
    #[cfg(feature = "liblzma")]
    if c.props.lc + c.props.lp <= 4 {
        let lib = crate::ffi_liblzma::raw_lzma1(
            c.props,
            (eff.min(u32::MAX as u64)) as u32,
            size,
            &enc.payload,
            expected.len() + (1 << 20),
        );
        if !lib.ok() || lib.out != expected {
            return Err(format!(
                "liblzma disagrees with reference model: ret={} {}",
                lib.ret,
                first_diff(&lib.out, &expected)
            ));
        }
        st.class("liblzma-second-opinion");
    }
    let _ = st;
    Ok((expected, enc, size))
}

impl Property for C01 {
    type Abs = Abs;
    type Case = Case;
    fn id(&self) -> &'static str {
        "C01"
    }
    fn cases(&self, tier: Tier) -> u32 {
        tier.pick(100_000, 1_200_000)
    }
    fn strategy(&self, tier: Tier) -> BoxedStrategy<Abs> {
        match tier {
            Tier::Quick => prop_oneof![
                8 => abs_strategy(60, 40, 40_000),
                3 => abs_strategy(400, 300, 200_000),
            ]
            .boxed(),
            Tier::Thorough => prop_oneof![
                8 => abs_strategy(80, 60, 60_000),
                4 => abs_strategy(600, 600, 400_000),
                1 => abs_strategy(4000, 4000, 3 << 20),
            ]
            .boxed(),
        }
    }
    fn concretize(&self, a: &Abs) -> Case {
        let eff = effective_dict(a.container, a.dict);
        let ops = concretize(
            &a.prog,
            ConcCfg {
                dict: eff,
                max_out: a.max_out,
                max_ops: 60_000,
            },
        );
        Case {
            props: a.props,
            dict: a.dict,
            ops,
            term: term_of(a.term_sel, a.marker_len_sel),
            container: a.container,
            redeclare_sel: a.redeclare_sel,
        }
    }
    fn fixed_cases(&self, tier: Tier) -> Vec<Case> {
        let mut v = Vec::new();
        // more than 65536 symbols in one stream
        {
            let mut ops = Vec::with_capacity(70_100);
            for i in 0..70_000u32 {
                ops.push(match i % 7 {
                    0 if i > 10 => Op::Match { dist: 1 + (i % 9), len: 2 + (i % 5) },
                    3 if i > 10 => Op::ShortRep,
                    5 if i > 10 => Op::Rep { idx: (i % 4) as u8, len: 2 },
                    _ => Op::Lit((i.wrapping_mul(2654435761) >> 13) as u8),
                });
            }
            for (props, dict) in [(Props::new(3, 0, 2), 1u32 << 16), (Props::new(1, 3, 1), 4096)] {
                v.push(Case {
                    props,
                    dict,
                    ops: ops.clone(),
                    term: Term::Marker(2),
                    container: Container::Header13,
                    redeclare_sel: 3,
                });
            }
        }
        let sizes: &[u64] = match tier {
            Tier::Quick => &[300_000, 1 << 20, 20 << 20],
            Tier::Thorough => &[1 << 20, 4 << 20, 16 << 20, 64 << 20, 33 << 20],
        };
        for (i, &t) in sizes.iter().enumerate() {
            for (j, props) in [Props::new(3, 0, 2), Props::new(0, 4, 4), Props::new(8, 4, 0)]
                .iter()
                .enumerate()
            {
                if t > (16 << 20) && j > 0 {
                    continue;
                }
                v.push(Case {
                    props: *props,
                    dict: 1 << 27,
                    ops: big_history_program(t, (i * 3 + j) as u64),
                    term: if (i + j) % 2 == 0 { Term::Marker(2) } else { Term::Size },
                    container: Container::Header13,
                    redeclare_sel: 0xFFFF,
                });
            }
        }
        v
    }
    fn rule(&self) -> String {
        "proptest generates (lc,lp,pb) over all 225 settings x declared dictionary size x abstract symbol program x termination style x container (13-byte header / 5-byte header + UseProvided / raw decoder); the program is concretised to a valid symbol program, encoded by the independent reference encoder and decoded by lzma-rs; expected bytes = direct interpretation of the program (cross-checked against the reference decoder and, for lc+lp<=4, liblzma). Non-trivial = the program contains at least one copy op (match / short rep / rep); distinct = SipHash of (props, dict, ops, termination, container).".into()
    }
    fn assumptions(&self) -> Vec<String> {
        vec![
            "reference model (symbol interpreter + encoder + decoder) written from the LZMA specification; its three parts must agree on every case, and with liblzma 5.4 where liblzma applies (lc+lp<=4)".into(),
            "distance slots above the reported max_pos_slot are not exercised on the accepting side".into(),
        ]
    }
    fn required_classes(&self, tier: Tier) -> Vec<(&'static str, u64)> {
        let m = tier.pick(1, 10);
        vec![
            ("props:lc+lp>4", 500 * m),
            ("props:pb!=2", 500 * m),
            ("props:lp!=0", 500 * m),
            ("len:2", 200 * m),
            ("len:10", 200 * m),
            ("len:18", 200 * m),
            ("len:273", 200 * m),
            ("rep:idx3", 100 * m),
            ("shortrep", 200 * m),
            ("copy:straddles-wrap", 200 * m),
            ("output>=3*dict", 100 * m),
            ("term:marker", 500 * m),
            ("term:size", 500 * m),
            ("container:Raw", 500 * m),
            ("container:Header13", 500 * m),
            ("metamorphic:redeclared-dict", 300 * m),
            ("metamorphic:dict<4096-clamped", 20 * m),
        ]
    }

    fn judge(&self, c: &mut Case, st: &mut LocalStats) -> Judgement {
        let eff = effective_dict(c.container, c.dict);
        let (expected, enc, size) = match reference_check(c, st) {
            Ok(x) => x,
            Err(e) => return Judgement::HarnessBug(e),
        };

        // ---- system under test
        let run_sut = |dict: u32| -> sut::Run {
            match c.container {
                Container::Header13 => {
                    let mut f = lzma_header(c.props, dict, size);
                    f.extend_from_slice(&enc.payload);
                    if dict % 2 == 0 {
                        // the default-options wrapper
                        sut::lzma_decompress_wrapper(&f, &ReaderKind::Slice, &Io::default())
                    } else {
                        sut::lzma_decompress_simple(&f, &Opts::default())
                    }
                }
                Container::Header5 => {
                    let mut f = lzma_header5(c.props, dict);
                    f.extend_from_slice(&enc.payload);
                    sut::lzma_decompress_simple(&f, &Opts::with(USize::UseProvided(size)))
                }
                Container::Raw => sut::raw_lzma(
                    c.props,
                    dict,
                    size,
                    None,
                    &enc.payload,
                    &ReaderKind::Slice,
                    &Io::default(),
                ),
                Container::RawReset { init } => sut::raw_lzma_reused(
                    c.props,
                    dict,
                    init,
                    size,
                    false,
                    &enc.payload,
                    &ReaderKind::Slice,
                    &Io::default(),
                ),
            }
        };
        st.eval();
        let sh = classify_program(&c.ops, eff, st);
        classify_props(c.props, st);
        st.class(match c.term {
            Term::Marker(_) => "term:marker",
            Term::Size => "term:size",
            Term::Both(_) => "term:size+marker",
        });
        st.class(match c.container {
            Container::Header13 => "container:Header13",
            Container::Header5 => "container:Header5",
            Container::Raw => "container:Raw",
            Container::RawReset { .. } => "container:Raw(reset to this size)",
        });
        if sh.n_copy > 0 {
            st.nontrivial(c);
            let kind = if sh.straddles > 0 {
                "copy straddling the window wrap"
            } else if c.props.lc + c.props.lp > 4 {
                "lc+lp>4"
            } else {
                "with copies"
            };
            st.sample(kind, || {
                json!({"props": c.props, "dict": c.dict, "container": format!("{:?}", c.container),
                       "term": format!("{:?}", c.term), "program": program_text(&c.ops, 24),
                       "payload": hex_prefix(&enc.payload, 32), "output_len": expected.len()})
            });
        }
        let r = run_sut(c.dict);
        let describe = |what: &str, r: &sut::Run| -> String {
            format!(
                "{}: props={:?} dict={} container={:?} term={:?} ops=[{}] -> verdict {} ; {}",
                what,
                c.props,
                c.dict,
                c.container,
                c.term,
                program_text(&c.ops, 40),
                r.verdict.brief(),
                first_diff(&r.out, &expected)
            )
        };
        if !r.verdict.is_ok() {
            return Judgement::violation("reject-valid", describe("well-formed stream not decoded", &r));
        }
        if r.out != expected {
            return Judgement::violation("wrong-bytes", describe("output differs from the format's definition", &r));
        }

        // ---- the same stream through a fragmenting reader into a short-writing sink
        if expected.len() <= 200_000 {
            let h = hash64(&(c.props.byte(), c.dict, &c.ops));
            let frag = ReaderKind::Chunky { pattern: vec![1 + (h % 9) as usize, 1 + ((h >> 9) % 200) as usize], stops: vec![] };
            let short = Io {
                sink: crate::iowrap::SinkCfg { max_per_write: vec![1 + ((h >> 20) % 5) as usize, 5000], ..Default::default() },
                ..Default::default()
            };
            let r3 = match c.container {
                Container::Header13 => {
                    let mut f = lzma_header(c.props, c.dict, size);
                    f.extend_from_slice(&enc.payload);
                    Some(sut::lzma_decompress(&f, &Opts::default(), &frag, &short))
                }
                Container::Raw => Some(sut::raw_lzma(c.props, c.dict, size, None, &enc.payload, &frag, &short)),
                _ => None,
            };
            if let Some(r3) = r3 {
                st.eval();
                st.class("also: fragmenting reader + short-writing sink");
                if !r3.verdict.is_ok() || r3.out != expected {
                    return Judgement::violation(
                        "reader-or-sink-dependence",
                        describe("same stream through a fragmenting reader into a short-writing sink", &r3),
                    );
                }
            }
        }
        // ---- a memory limit equal to the needed window (min(dictionary, output)) changes nothing,
        //      however large the declared dictionary is
        if matches!(c.container, Container::Header13 | Container::Header5) && expected.len() <= 200_000 {
            let need = (expected.len() as u64).min(eff);
            let mut o = match c.container {
                Container::Header13 => Opts::default(),
                _ => Opts::with(USize::UseProvided(size)),
            };
            o.memlimit = Some(need);
            let mut f = if c.container == Container::Header13 { lzma_header(c.props, c.dict, size) } else { lzma_header5(c.props, c.dict) };
            f.extend_from_slice(&enc.payload);
            st.eval();
            st.class("also: memlimit == needed window");
            let r4 = sut::lzma_decompress_simple(&f, &o);
            if !r4.verdict.is_ok() || r4.out != expected {
                return Judgement::violation(
                    "memlimit-at-need",
                    describe(&format!("same stream with memlimit = min(dictionary, output) = {}", need), &r4),
                );
            }
        }
        // ---- metamorphic (a): header dict < 4096 behaves as 4096
        let is_raw = matches!(c.container, Container::Raw | Container::RawReset { .. });
        if !is_raw && c.dict < 4096 && sh.max_dist > c.dict as u64 {
            st.class("metamorphic:dict<4096-clamped");
        }
        // ---- metamorphic (b): any other declared dictionary >= max distance used
        let lo = sh.max_dist.max(1);
        let lo = if is_raw { lo } else { lo.max(1) };
        let hi = (expected.len() as u64 * 2 + 64).max(lo).min(u32::MAX as u64);
        let d2 = if c.redeclare_sel == 0xFFFF {
            u32::MAX
        } else if c.redeclare_sel % 5 == 0 {
            lo as u32
        } else if c.redeclare_sel % 5 == 1 {
            [1u32 << 12, 1 << 16, 1 << 20, 1 << 31, u32::MAX][(c.redeclare_sel as usize / 5) % 5]
                .max(lo as u32)
        } else {
            pick(c.redeclare_sel, lo, hi) as u32
        };
        if d2 != c.dict {
            st.eval();
            st.class("metamorphic:redeclared-dict");
            let r2 = run_sut(d2);
            if !r2.verdict.is_ok() || r2.out != expected {
                return Judgement::violation(
                    "dict-dependence",
                    describe(&format!("same symbols, declared dictionary {} instead of {}", d2, c.dict), &r2),
                );
            }
        }
        Judgement::Pass
    }
}
