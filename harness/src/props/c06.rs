//! C06 — XZ integrity: success implies every check passed; no silent corruption.
//! Per generated file: every single-bit flip, truncation at every offset and
//! the full (field x value-class) table of sealed single-field mutations.

use super::c03::{build_valid, xz_text};
use crate::gen::xz::*;
use crate::refmodel::xz::{write_xz, Mut, XzFile, XzSpec};
use crate::runner::*;
use crate::sut::{self, Io, ReaderKind, Verdict};
use proptest::prelude::*;
use serde::{Deserialize, Serialize};
use serde_json::json;

#[derive(Clone, Debug, PartialEq, Eq, Hash, Serialize, Deserialize)]
pub enum Focus {
    Flip { byte: usize, bit: u8 },
    Trunc(usize),
    Field(Mut),
}

#[derive(Clone, Debug, PartialEq, Eq, Hash, Serialize, Deserialize)]
pub struct Case {
    pub file: XzCase,
    /// None: enumerate everything (or the sample below); Some: just this one
    pub focus: Option<Focus>,
    /// for files too large to enumerate: how many flips / truncations to sample
    pub sample: Option<(u32, u64)>,
}

pub struct C06;

fn u64_variants(t: u64, max: u64) -> Vec<u64> {
    let mut v = vec![
        t.wrapping_add(1),
        t.wrapping_sub(1),
        0,
        t ^ 1,
        t ^ 2,
        t ^ 0x80,
        t ^ 0x4000,
        t + (1 << 30),
        t + (1 << 31),
        t + (1 << 32),
        t + (1u64 << 62),
        max,
        // multibyte-integer group boundaries and a few more powers of two
        t | (1 << 7),
        t | (1 << 14),
        t | (1 << 21),
        t | (1 << 28),
        t | (1 << 35),
        t | (1 << 56),
        t + (1 << 16),
        t + (1 << 24),
        t + (1 << 33),
        t + (1 << 40),
        t + (1 << 48),
        t.wrapping_sub(1 << 32),
        (1 << 32) - 1,
        1 << 31,
    ];
    v.retain(|x| *x != t && *x <= max);
    v.sort_unstable();
    v.dedup();
    v
}

fn u32_variants(t: u32) -> Vec<u32> {
    let mut v = vec![
        t.wrapping_add(1),
        t.wrapping_sub(1),
        0,
        t ^ 1,
        t ^ 0x8000_0000,
        t ^ 0x0001_0000,
        t.wrapping_add(1 << 30),
        t.wrapping_add(1 << 31),
        t.wrapping_add(3 << 30),
        u32::MAX,
        u32::MAX - 1,
        0x7FFF_FFFF,
        0x3FFF_FFFF,
    ];
    v.retain(|x| *x != t);
    v.sort_unstable();
    v.dedup();
    v
}

/// (mutation, must_be_rejected). Mutations with `false` only carry the weaker
/// oracle "success implies the original output" (for files with a CRC check).
pub fn field_mutations(spec: &XzSpec, file: &XzFile) -> Vec<(Mut, bool)> {
    let mut v: Vec<(Mut, bool)> = Vec::new();
    let b = &file.bytes;
    const VLI_MAX: u64 = (1u64 << 63) - 1;
    for idx in 0..6 {
        let t = b[idx];
        for val in [t ^ 1, t ^ 0x80, 0u8, 0xFF] {
            if val != t {
                v.push((Mut::HeaderMagic { idx, val }, true));
            }
        }
    }
    let others: Vec<u8> = [0u8, 1, 4].iter().copied().filter(|c| *c != spec.check).collect();
    for o in &others {
        v.push((Mut::HeaderFlags([0, *o]), true));
        v.push((Mut::FooterFlags([0, *o]), true));
    }
    for f in [[1u8, spec.check], [0x80, spec.check], [0, spec.check | 0x10], [0, spec.check | 0x80], [0, 2], [0, 0x0F]] {
        v.push((Mut::HeaderFlags(f), true));
        v.push((Mut::FooterFlags(f), true));
    }
    let hcrc = u32::from_le_bytes(b[8..12].try_into().unwrap());
    for x in u32_variants(hcrc) {
        v.push((Mut::HeaderCrc(x), true));
    }
    for (bi, blk) in spec.blocks.iter().enumerate() {
        let bl = &file.layout.blocks[bi];
        let crc_off = bl.header_off + bl.header_len - 4;
        let c = u32::from_le_bytes(b[crc_off..crc_off + 4].try_into().unwrap());
        for x in u32_variants(c) {
            v.push((Mut::BlockHeaderCrc { b: bi, val: x }, true));
        }
        if blk.has_packed {
            for x in u64_variants(blk.payload.len() as u64, VLI_MAX) {
                v.push((Mut::PackedSize { b: bi, val: x }, true));
            }
        }
        if blk.has_unpacked {
            for x in u64_variants(blk.content.len() as u64, VLI_MAX) {
                v.push((Mut::UnpackedSize { b: bi, val: x }, true));
            }
        }
        for k in 0..bl.header_pad {
            v.push((Mut::HeaderPad { b: bi, k, val: 1 }, true));
            v.push((Mut::HeaderPad { b: bi, k, val: 0x80 }, true));
        }
        for k in 0..bl.pad_len {
            v.push((Mut::BlockPad { b: bi, k, val: 1 }, true));
            v.push((Mut::BlockPad { b: bi, k, val: 0xFF }, true));
        }
        for k in 0..bl.check_len {
            v.push((Mut::BlockCheck { b: bi, k, xor: 1 }, true));
            v.push((Mut::BlockCheck { b: bi, k, xor: 0x80 }, true));
        }
        let unpadded = (bl.header_len + bl.payload_len + bl.check_len) as u64;
        for x in u64_variants(unpadded, VLI_MAX) {
            v.push((Mut::IndexUnpadded { b: bi, val: x }, true));
        }
        for x in u64_variants(blk.content.len() as u64, VLI_MAX) {
            v.push((Mut::IndexUnpacked { b: bi, val: x }, true));
        }
        for (k, byte) in [(1usize, 0u8), (1, 0xA5), (3, 0), (4, 0), (4, 0x21), (8, 0), (64, 0)] {
            v.push((Mut::PackedJunk { b: bi, k, byte }, true));
        }
        // weaker oracle only
        let sb = b[bl.header_off];
        for val in [sb ^ 1, sb.wrapping_add(1), sb ^ 0x40, 0xFF] {
            if val != sb && val != 0 {
                v.push((Mut::BlockHeaderSizeByte { b: bi, val }, false));
            }
        }
        for val in 1..4u8 {
            v.push((Mut::BlockNumFilters { b: bi, val }, false));
        }
    }
    for x in u64_variants(spec.blocks.len() as u64, VLI_MAX) {
        v.push((Mut::IndexCount(x), true));
    }
    for keep in 0..spec.blocks.len() {
        v.push((Mut::IndexTruncate { keep }, true));
    }
    for i in 0..spec.blocks.len() {
        for j in i + 1..spec.blocks.len() {
            v.push((Mut::IndexSwap { i, j }, true));
        }
    }
    v.push((Mut::IndexExtra { unpadded: 12, unpacked: 0 }, true));
    if let Some(last) = spec.blocks.last() {
        let bl = file.layout.blocks.last().unwrap();
        v.push((
            Mut::IndexExtra { unpadded: (bl.header_len + bl.payload_len + bl.check_len) as u64, unpacked: last.content.len() as u64 },
            true,
        ));
    }
    for k in 0..file.layout.index_pad {
        v.push((Mut::IndexPad { k, val: 1 }, true));
        v.push((Mut::IndexPad { k, val: 0x80 }, true));
    }
    let io = file.layout.index_off + file.layout.index_len - 4;
    let icrc = u32::from_le_bytes(b[io..io + 4].try_into().unwrap());
    for x in u32_variants(icrc) {
        v.push((Mut::IndexCrc(x), true));
    }
    let fo = file.layout.footer_off;
    let fcrc = u32::from_le_bytes(b[fo..fo + 4].try_into().unwrap());
    for x in u32_variants(fcrc) {
        v.push((Mut::FooterCrc(x), true));
    }
    let bw = u32::from_le_bytes(b[fo + 4..fo + 8].try_into().unwrap());
    for x in u32_variants(bw) {
        v.push((Mut::BackwardSize(x), true));
    }
    for idx in 0..2 {
        let t = b[fo + 10 + idx];
        for val in [t ^ 1, t ^ 0x80, 0u8] {
            v.push((Mut::FooterMagic { idx, val }, true));
        }
    }
    for val in [1u8, 0x80] {
        v.push((Mut::IndexIndicator(val), false));
    }
    // bytes after the footer (the footer mechanism includes 'no trailing data'): not a stream padding length (1,2,3,5 zero bytes),
    // stream padding (4, 8 zero bytes; unsupported by lzma-rs), other bytes
    for t in [vec![0u8], vec![0; 2], vec![0; 3], vec![0; 4], vec![0; 5], vec![0; 8], vec![1], vec![0, 0, 0, 1], vec![0xFD, 0x37]] {
        v.push((Mut::Trailing(t), true));
    }
    v
}

pub fn mut_name(m: &Mut) -> &'static str {
    match m {
        Mut::HeaderMagic { .. } => "header magic",
        Mut::HeaderFlags(_) => "header flags",
        Mut::HeaderCrc(_) => "header crc32",
        Mut::BlockHeaderSizeByte { .. } => "block header size byte",
        Mut::BlockFlagsReserved { .. } => "block flags reserved",
        Mut::BlockNumFilters { .. } => "block filter count",
        Mut::PackedSize { .. } => "declared compressed size",
        Mut::UnpackedSize { .. } => "declared uncompressed size",
        Mut::FilterId { .. } => "filter id",
        Mut::ExtraFilter { .. } => "extra filter",
        Mut::PropsSize { .. } => "filter props size",
        Mut::HeaderPad { .. } => "block header padding",
        Mut::BlockHeaderCrc { .. } => "block header crc32",
        Mut::BlockPad { .. } => "block padding",
        Mut::BlockCheck { .. } => "block check",
        Mut::IndexIndicator(_) => "index indicator",
        Mut::IndexCount(_) => "index record count",
        Mut::IndexUnpadded { .. } => "index unpadded size",
        Mut::IndexUnpacked { .. } => "index uncompressed size",
        Mut::IndexPad { .. } => "index padding",
        Mut::IndexTruncate { .. } => "index lists fewer records than blocks",
        Mut::IndexExtra { .. } => "index lists more records than blocks",
        Mut::IndexSwap { .. } => "index records exchanged",
        Mut::PackedJunk { .. } => "junk inside the declared compressed size",
        Mut::IndexCrc(_) => "index crc32",
        Mut::FooterCrc(_) => "footer crc32",
        Mut::BackwardSize(_) => "backward size",
        Mut::FooterFlags(_) => "footer flags",
        Mut::FooterMagic { .. } => "footer magic",
        Mut::BothFlags(_) => "stream flags (both)",
        Mut::Trailing(_) => "trailing bytes",
    }
}

fn value_class(m: &Mut) -> String {
    match m {
        Mut::BackwardSize(v) => format!("{:#x}", v),
        _ => String::new(),
    }
}

impl Property for C06 {
    type Abs = (AbsXz, bool, u64);
    type Case = Case;
    fn id(&self) -> &'static str {
        "C06"
    }
    fn level(&self) -> &'static str {
        "fault_enumeration"
    }
    fn exhaustive_per_case(&self) -> bool {
        true
    }
    fn cases(&self, tier: Tier) -> u32 {
        tier.pick(4_000, 40_000)
    }
    fn strategy(&self, tier: Tier) -> BoxedStrategy<Self::Abs> {
        let small = (abs_xz(2, 2, 8, 60), Just(false), any::<u64>());
        let large = (abs_xz(tier.pick(4, 8), 3, 20, 6000), Just(true), any::<u64>());
        prop_oneof![5 => small, 1 => large].boxed()
    }
    fn concretize(&self, a: &Self::Abs) -> Case {
        Case {
            file: concretize_xz(&a.0),
            focus: None,
            sample: if a.1 { Some((600, a.2)) } else { None },
        }
    }
    fn rule(&self) -> String {
        "proptest generates valid .xz files (check None/CRC32/CRC64, 0..=2 small blocks, optional size fields, header padding); per file the check ENUMERATES (a) every single-bit flip, (b) truncation at every offset, (c) every sealed single-field mutation of the table {header magic bytes, header/footer flags, header CRC, block header CRC, declared compressed/uncompressed size, header padding bytes, block padding bytes, block check bytes, index record count, per-record unpadded/uncompressed size, index padding, index CRC, footer CRC, backward size, footer magic} x value classes {true+-1, 0, single-bit changes, +2^30, +2^31, +2^32, extremes}, with all enclosing CRC32s recomputed by the writer so that only the field's own validation can object. Larger files (1 in 6) get 600 sampled flips/truncations and the full field table. Oracle: (a) for files with CRC32/CRC64: Ok => output == original; (b) Err; (c) Err. Non-trivial = any mutation applied (every enumerated mutation changes at least one byte covered by a check); distinct = (file hash, mutation).".into()
    }
    fn assumptions(&self) -> Vec<String> {
        vec![
            "fields the property does not name (LZMA2 dictionary-size byte, filter count, header size byte, index indicator, non-minimal integers) are only held to 'success implies the original output'".into(),
            "single-bit flips of files with check None are not asserted (nothing in such a file covers the payload)".into(),
        ]
    }
    fn required_classes(&self, tier: Tier) -> Vec<(&'static str, u64)> {
        let m = tier.pick(1, 8);
        vec![
            ("field:backward size", 2000 * m),
            ("field:declared compressed size", 500 * m),
            ("field:declared uncompressed size", 500 * m),
            ("field:block padding", 100 * m),
            ("field:block header padding", 500 * m),
            ("field:index padding", 100 * m),
            ("field:block check", 1000 * m),
            ("field:index record count", 1000 * m),
            ("field:index lists fewer records than blocks", 500 * m),
            ("field:footer flags", 1000 * m),
            ("flip", 100_000 * m),
            ("truncation", 30_000 * m),
        ]
    }

    fn judge(&self, c: &mut Case, st: &mut LocalStats) -> Judgement {
        let mut scratch = LocalStats::default();
        scratch.frozen = true;
        let (spec, file, expected) = match build_valid(&c.file, &mut scratch) {
            Ok(x) => x,
            Err(e) => return Judgement::HarnessBug(e),
        };
        let io = Io::default();
        let fh = hash64(&c.file);
        // the unmutated file must decode (C03's business, but a precondition here)
        let base = sut::xz_decompress(&file.bytes, &ReaderKind::Slice, &io);
        if !base.verdict.is_ok() || base.out != expected {
            return Judgement::violation(
                "valid-file-not-decoded",
                format!("unmutated file: {} [{}]", base.verdict.brief(), xz_text(&c.file)),
            );
        }
        let has_check = spec.check != 0;
        let n = file.bytes.len();
        st.sample(if c.sample.is_some() { "large file (sampled flips)" } else { "small file (all flips)" }, || {
            json!({"file": xz_text(&c.file), "bytes": hex_prefix(&file.bytes, 64), "len": n,
                   "mutations": format!("{} bit flips, {} truncations, {} sealed field mutations", n * 8, n, field_mutations(&spec, &file).len())})
        });
        let focus = c.focus.clone();
        let mut buf = file.bytes.clone();

        // ---- (a) bit flips
        let flips: Vec<(usize, u8)> = match (&focus, &c.sample) {
            (Some(Focus::Flip { byte, bit }), _) => vec![(*byte, *bit)],
            (Some(_), _) => vec![],
            (None, None) => (0..n).flat_map(|i| (0..8u8).map(move |b| (i, b))).collect(),
            (None, Some((k, seed))) => {
                let mut x = *seed | 1;
                (0..*k)
                    .map(|_| {
                        x ^= x << 13;
                        x ^= x >> 7;
                        x ^= x << 17;
                        (((x >> 8) as usize) % n, (x & 7) as u8)
                    })
                    .collect()
            }
        };
        if has_check {
            for (i, bit) in flips {
                if i >= n {
                    continue;
                }
                buf[i] ^= 1 << bit;
                st.eval();
                st.class("flip");
                st.nontrivial(&(fh, 1u8, i, bit));
                let r = sut::xz_decompress(&buf, &ReaderKind::Slice, &io);
                buf[i] ^= 1 << bit;
                match r.verdict {
                    Verdict::Ok if r.out != expected => {
                        c.focus = Some(Focus::Flip { byte: i, bit });
                        return Judgement::violation(
                            "flip-silent-corruption",
                            format!("bit {} of byte {} flipped: success with different output [{}]", bit, i, xz_text(&c.file)),
                        );
                    }
                    Verdict::Ok => st.class("flip accepted with identical output"),
                    Verdict::Panic(_) => st.class("panic (left to C07)"),
                    Verdict::Err(_) => {}
                }
            }
        }
        // ---- (b) truncations
        let truncs: Vec<usize> = match (&focus, &c.sample) {
            (Some(Focus::Trunc(t)), _) => vec![*t],
            (Some(_), _) => vec![],
            (None, None) => (0..n).collect(),
            (None, Some((k, seed))) => {
                let mut x = seed.rotate_left(17) | 1;
                let mut v: Vec<usize> = (0..(*k as usize).min(n))
                    .map(|_| {
                        x ^= x << 13;
                        x ^= x >> 7;
                        x ^= x << 17;
                        (x >> 8) as usize % n
                    })
                    .collect();
                // the last few offsets always
                v.extend(n.saturating_sub(16)..n);
                v
            }
        };
        for t in truncs {
            if t >= n {
                continue;
            }
            st.eval();
            st.class("truncation");
            st.nontrivial(&(fh, 2u8, t));
            let r = sut::xz_decompress(&file.bytes[..t], &ReaderKind::Slice, &io);
            if r.verdict.is_ok() {
                c.focus = Some(Focus::Trunc(t));
                return Judgement::violation(
                    "truncation-accepted",
                    format!("file truncated to {} of {} bytes is accepted [{}]", t, n, xz_text(&c.file)),
                );
            }
            if r.verdict.is_panic() {
                st.class("panic (left to C07)");
            }
        }
        // ---- (c) sealed single-field mutations
        let muts: Vec<(Mut, bool)> = match &focus {
            Some(Focus::Field(m)) => {
                let all = field_mutations(&spec, &file);
                let must = all.iter().find(|(x, _)| x == m).map(|(_, b)| *b).unwrap_or(true);
                vec![(m.clone(), must)]
            }
            Some(_) => vec![],
            None => field_mutations(&spec, &file),
        };
        for (m, must_reject) in muts {
            let mf = write_xz(&spec, Some(&m));
            if !mf.mut_applied || mf.bytes == file.bytes {
                continue;
            }
            st.eval();
            st.class(&format!("field:{}", mut_name(&m)));
            st.nontrivial(&(fh, 3u8, &m));
            let r = sut::xz_decompress(&mf.bytes, &ReaderKind::Slice, &io);
            match r.verdict {
                Verdict::Ok => {
                    if must_reject {
                        c.focus = Some(Focus::Field(m.clone()));
                        return Judgement::violation(
                            format!("field-accepted:{}{}", mut_name(&m).replace(' ', "-"), if value_class(&m).is_empty() { String::new() } else { String::new() }),
                            format!(
                                "sealed mutation {:?} (only '{}' is wrong, enclosing CRCs recomputed) is accepted; output {} original [{}]",
                                m,
                                mut_name(&m),
                                if r.out == expected { "==" } else { "!=" },
                                xz_text(&c.file)
                            ),
                        );
                    } else if has_check && r.out != expected {
                        c.focus = Some(Focus::Field(m.clone()));
                        return Judgement::violation(
                            "field-silent-corruption",
                            format!("mutation {:?} accepted with different output [{}]", m, xz_text(&c.file)),
                        );
                    }
                }
                Verdict::Panic(_) => st.class("panic (left to C07)"),
                Verdict::Err(_) => {}
            }
        }
        Judgement::Pass
    }
}
