//! C16 — A failed or completed stream stays failed or completed.

use super::c05::choose_opts;
use crate::gen::bytes::*;
use crate::iowrap::SinkCfg;
use crate::runner::*;
use crate::sut::{self, Call, Opts, USize, Verdict};
use proptest::prelude::*;
use serde::{Deserialize, Serialize};
use serde_json::json;

#[derive(Clone, Debug, PartialEq, Eq, Hash, Serialize, Deserialize)]
pub struct Case {
    #[serde(with = "hexser")]
    pub input: Vec<u8>,
    pub opts: Opts,
    pub script: Vec<Call>,
    /// fail the k-th sink write (None: infallible sink)
    pub sink_fail_at: Option<usize>,
    /// how the injected sink error is built (iowrap::set_err_style; 6 WouldBlock, 7 Interrupted, 8 TimedOut)
    #[serde(default)]
    pub sink_err_style: u8,
    /// for valid known-size streams: offset at which the payload ends, and the exact output
    pub payload_end: Option<usize>,
    #[serde(with = "hexser")]
    pub expected: Vec<u8>,
    /// whether finish() after completion must succeed (false: the declared size
    /// falls inside a copy, so the size is overshot and finish must fail)
    #[serde(default = "yes")]
    pub finish_ok: bool,
    pub kind: String,
}

fn yes() -> bool {
    true
}

#[derive(Clone, Debug)]
pub struct Abs {
    file: AbsLzmaFile,
    muts: Vec<AbsMut>,
    /// 0 valid, 1 corrupt, 2 over-long, 3 random
    kind: u8,
    extra: Vec<u8>,
    osel: u8,
    calls: Vec<(u8, u16)>,
    tail_calls: Vec<(u8, u16)>,
    sink_fail: Option<u8>,
}

pub struct C16;

fn abs_strategy() -> BoxedStrategy<Abs> {
    (
        abs_lzma_file(30, 20, 20_000),
        abs_muts(3),
        prop_oneof![3 => Just(0u8), 4 => Just(1u8), 4 => Just(2u8), 1 => Just(3u8), 3 => Just(4u8)],
        prop_oneof![
            3 => prop::collection::vec(any::<u8>(), 1..60),
            1 => prop::collection::vec(Just(0u8), 1..40),
        ],
        any::<u8>(),
        prop::collection::vec((0u8..10, any::<u16>()), 1..30),
        prop::collection::vec((0u8..10, any::<u16>()), 1..8),
        prop_oneof![6 => Just(None), 1 => (0u8..4).prop_map(Some)],
    )
        .prop_map(|(file, muts, kind, extra, osel, calls, tail_calls, sink_fail)| Abs {
            file,
            muts,
            kind,
            extra,
            osel,
            calls,
            tail_calls,
            sink_fail,
        })
        .boxed()
}

impl Property for C16 {
    type Abs = Abs;
    type Case = Case;
    fn id(&self) -> &'static str {
        "C16"
    }
    fn cases(&self, tier: Tier) -> u32 {
        tier.pick(250_000, 2_500_000)
    }
    fn strategy(&self, _tier: Tier) -> BoxedStrategy<Abs> {
        abs_strategy()
    }
    fn concretize(&self, a: &Abs) -> Case {
        let mut file = a.file.clone();
        if a.sink_fail.is_some() {
            // the sink is only written when the 4096-byte window fills up
            use crate::gen::program::{AbsOp, LitKind};
            file.dict = file.dict.min(4097);
            file.max_out = 40_000;
            file.prog.insert(0, AbsOp::Lit(LitKind::Given, 0x61));
            file.prog.insert(1, AbsOp::Lit(LitKind::Noise, 1));
            file.prog.insert(2, AbsOp::Run { k: 70, op: Box::new(AbsOp::Match { dclass: 6, dsel: 900, lclass: 6, lsel: 0 }) });
        }
        if a.kind == 2 {
            // over-long input needs a size in effect
            file.term_sel = 2;
        }
        let f = build_lzma_file(&file);
        let l = f.output.len() as u64;
        let mut payload_end = None;
        let mut expected = vec![];
        let mut finish_ok = true;
        let (input, opts, kind) = match a.kind {
            0 => {
                let o = if file.h13 {
                    Opts::with(USize::ReadFromHeader)
                } else {
                    Opts::with(USize::UseProvided(if f.has_size { Some(l) } else { None }))
                };
                if f.has_size {
                    // size reached when the last non-marker symbol is done
                    let last = if f.has_marker { f.sym_ends.len().saturating_sub(2) } else { f.sym_ends.len().saturating_sub(1) };
                    payload_end = Some(if f.sym_ends.is_empty() || (f.has_marker && f.sym_ends.len() == 1) {
                        f.header_len + 5
                    } else {
                        f.sym_ends[last]
                    });
                    expected = f.output.clone();
                }
                (f.bytes.clone(), o, "valid")
            }
            1 => {
                let (v, _) = apply_muts(&f.bytes, &a.muts);
                (v, choose_opts(a.osel, 0, 0, file.h13, l), "corrupt")
            }
            2 => {
                let o = if file.h13 {
                    Opts::with(USize::ReadFromHeader)
                } else {
                    Opts::with(USize::UseProvided(Some(l)))
                };
                payload_end = Some(f.bytes.len());
                expected = f.output.clone();
                let mut v = f.bytes.clone();
                v.extend_from_slice(&a.extra);
                if a.extra.len() % 3 == 0 {
                    v.extend_from_slice(&f.bytes[f.header_len..]);
                }
                (v, o, "over-long")
            }
            4 => {
                // declared size n <= L, anywhere (symbol boundary or inside a copy)
                let n = crate::gen::program::pick(a.osel as u16 * 257, 0, l) as usize;
                let idx = f.table.iter().position(|t| t.produced as usize >= n);
                let (pe, produced) = match idx {
                    _ if n == 0 => (f.header_len + 5, 0),
                    Some(i) => (f.sym_ends[i], f.table[i].produced as usize),
                    None => (f.bytes.len(), f.output.len()),
                };
                payload_end = Some(pe);
                finish_ok = produced == n;
                expected = f.output[..n.min(f.output.len())].to_vec();
                let o = if file.h13 {
                    Opts::with(USize::ReadHeaderButUseProvided(Some(n as u64)))
                } else {
                    Opts::with(USize::UseProvided(Some(n as u64)))
                };
                let mut v = f.bytes.clone();
                if a.extra.len() % 2 == 0 {
                    v.extend_from_slice(&a.extra);
                }
                (v, o, if finish_ok { "short-size(boundary)" } else { "short-size(inside-copy)" })
            }
            _ => (a.extra.clone(), Opts::default(), "random"),
        };
        // script: pieces until the input is used up, interleaved with flush / get_output,
        // then a few more calls (which only matter after a transition)
        let n = input.len();
        let mut script = Vec::new();
        let mut planned = 0usize;
        let mut i = 0;
        while planned < n && i < 400 {
            let (k, sel) = a.calls[i % a.calls.len()];
            match k {
                0 => script.push(Call::Flush),
                1 => script.push(if sel % 2 == 0 { Call::GetOutput } else { Call::GetOutputMut }),
                2 => script.push(Call::WriteOnce(0)),
                3 | 4 => {
                    let p = 1 + (sel as usize % 7);
                    script.push(Call::WriteOnce(p));
                    planned += p;
                }
                5 => {
                    let p = 1 + (sel as usize % 40);
                    script.push(Call::WriteOnce(p));
                    planned += p;
                }
                _ => {
                    let p = 1 + (sel as usize % (n - planned).max(1));
                    script.push(Call::WriteOnce(p));
                    planned += p;
                }
            }
            i += 1;
        }
        for (k, sel) in &a.tail_calls {
            script.push(match k % 4 {
                0 => Call::Flush,
                1 => if sel % 2 == 0 { Call::GetOutput } else { Call::GetOutputMut },
                _ => Call::WriteOnce(1 + (*sel as usize % 30)),
            });
        }
        Case {
            input,
            opts,
            script,
            sink_fail_at: a.sink_fail.map(|x| x as usize),
            sink_err_style: if a.sink_fail.is_some() { [0u8, 6, 7, 8, 2, 6][(a.osel as usize / 7) % 6] } else { 0 },
            payload_end,
            expected,
            finish_ok,
            kind: kind.to_string(),
        }
    }
    fn rule(&self) -> String {
        "proptest generates call histories over one Stream: single write() calls with generated piece sizes (0, 1..7, 1..40, large), flush(), get_output(), ended by finish(), over inputs {valid stream, byte-mutated (corrupt) stream, over-long input = complete size-bounded stream followed by garbage / zero bytes / a second payload, random bytes}, occasionally with a sink that fails at its k-th write (error kinds Other, BrokenPipe, WouldBlock, Interrupted, TimedOut: a write that returned an error latches whatever the kind). The harness' model has three states: Live -> Failed at the first write() that returns Err; Live -> Complete when a write returns with the input position at or beyond the end of a size-bounded payload. Invariants checked after every call: Failed: every later write returns Ok(0) or Err, the sink receives nothing further, finish() is Err. Complete: every later non-empty write returns Ok(0), the sink receives nothing further until finish(), finish() is Ok with exactly the expected output. No call panics (checked build). Non-trivial = at least one call after the transition; distinct = SipHash of (input, options, script).".into()
    }
    fn required_classes(&self, tier: Tier) -> Vec<(&'static str, u64)> {
        let k = tier.pick(1, 10);
        vec![
            ("transition:Failed", 5000 * k),
            ("transition:Complete", 5000 * k),
            ("calls after Failed", 10_000 * k),
            ("calls after Complete", 10_000 * k),
            ("failed by sink error", 200 * k),
            ("input:short-size(inside-copy)", 1000 * k),
            ("input:short-size(boundary)", 1000 * k),
            ("size reached inside the look-ahead buffer (trailing bytes consumed)", 20 * k),
        ]
    }

    fn judge(&self, c: &mut Case, st: &mut LocalStats) -> Judgement {
        let sink = SinkCfg {
            fail_write_at: c.sink_fail_at,
            ..Default::default()
        };
        st.eval();
        let _style = crate::iowrap::set_err_style(c.sink_err_style);
        if c.sink_fail_at.is_some() {
            st.class(match c.sink_err_style {
                6 => "sink error kind: WouldBlock",
                7 => "sink error kind: Interrupted (write_all retries it)",
                8 => "sink error kind: TimedOut",
                _ => "sink error kind: Other/BrokenPipe",
            });
        }
        let r = sut::stream_run(&c.input, &c.opts, &c.script, &sink, true);
        st.class(&format!("input:{}", c.kind));
        let what = |msg: &str, i: usize| -> String {
            let steps: Vec<String> = r
                .steps
                .iter()
                .enumerate()
                .skip(i.saturating_sub(6))
                .take(12)
                .map(|(j, s)| format!("#{} {:?}->{:?} sink={} pos={}", j, s.call, s.result.as_ref().map_err(|e| sut::trunc(e, 40)), s.sink_len_after, s.input_pos_after))
                .collect();
            format!(
                "{} (at call #{}): input({}B,{})={} opts={:?} sink_fail_at={:?} payload_end={:?} ; calls: {} ; finish={}",
                msg,
                i,
                c.input.len(),
                c.kind,
                hex_prefix(&c.input, 40),
                c.opts,
                c.sink_fail_at,
                c.payload_end,
                steps.join(" | "),
                r.finish.brief()
            )
        };
        if let Verdict::Panic(p) = &r.verdict {
            return Judgement::violation(format!("panic:{}", sut::panic_site(p)), what(&format!("panic: {}", p), r.steps.len()));
        }
        // replay the model over the recorded steps
        #[derive(PartialEq)]
        enum M {
            Live,
            Failed(usize),
            Complete(usize),
        }
        let mut m = M::Live;
        let mut frozen_sink = 0usize;
        let mut after = 0usize;
        for (i, s) in r.steps.iter().enumerate() {
            let is_write = matches!(s.call, Call::WriteOnce(_) | Call::Write(_));
            let nonempty = match s.call {
                Call::WriteOnce(n) | Call::Write(n) => n > 0 && s.input_pos_after - match &s.result { Ok(k) => *k, Err(_) => 0 } < c.input.len(),
                _ => false,
            };
            match m {
                M::Live => {
                    if is_write && s.result.is_err() {
                        m = M::Failed(i);
                        frozen_sink = s.sink_len_after;
                        st.class("transition:Failed");
                        if c.sink_fail_at.is_some() && r.sink.failed {
                            st.class("failed by sink error");
                        }
                    } else if let Some(pe) = c.payload_end {
                        if is_write && s.input_pos_after >= pe && c.sink_fail_at.is_none() {
                            m = M::Complete(i);
                            frozen_sink = s.sink_len_after;
                            st.class("transition:Complete");
                            if s.input_pos_after > pe {
                                st.class("size reached inside the look-ahead buffer (trailing bytes consumed)");
                            }
                        }
                    }
                }
                M::Failed(at) => {
                    after += 1;
                    st.class("calls after Failed");
                    if is_write {
                        if let Ok(k) = &s.result {
                            if *k != 0 {
                                return Judgement::violation(
                                    "failed-stream-consumes-input",
                                    what(&format!("write after a failed write (call #{}) reports {} bytes consumed", at, k), i),
                                );
                            }
                        }
                    }
                    if s.sink_len_after != frozen_sink {
                        return Judgement::violation(
                            "failed-stream-delivers-output",
                            what(&format!("sink grew from {} to {} after the failed write (call #{})", frozen_sink, s.sink_len_after, at), i),
                        );
                    }
                }
                M::Complete(at) => {
                    after += 1;
                    st.class("calls after Complete");
                    if is_write && nonempty {
                        match &s.result {
                            Ok(0) => {}
                            other => {
                                return Judgement::violation(
                                    "complete-stream-consumes-input",
                                    what(&format!("non-empty write after the declared size was reached (call #{}) returns {:?}", at, other.as_ref().map_err(|e| sut::trunc(e, 60))), i),
                                )
                            }
                        }
                    }
                    if s.sink_len_after != frozen_sink {
                        return Judgement::violation(
                            "complete-stream-output-changes",
                            what(&format!("sink grew from {} to {} after completion (call #{})", frozen_sink, s.sink_len_after, at), i),
                        );
                    }
                }
            }
        }
        match m {
            M::Failed(at) => {
                if !r.finish.is_err() {
                    return Judgement::violation("failed-stream-finishes", what(&format!("finish after a failed write (call #{}) returns {}", at, r.finish.brief()), r.steps.len()));
                }
                if r.out.len() != frozen_sink {
                    return Judgement::violation("failed-stream-delivers-output", what("finish delivered bytes to the sink after a failed write", r.steps.len()));
                }
            }
            M::Complete(at) => {
                if !c.finish_ok {
                    if r.finish.is_ok() {
                        return Judgement::violation("overshoot-accepted", what("the declared size falls inside a copy, yet finish succeeds", r.steps.len()));
                    }
                } else if !r.finish.is_ok() {
                    return Judgement::violation("complete-stream-finish-fails", what(&format!("finish after completion (call #{}) returns {}", at, r.finish.brief()), r.steps.len()));
                } else if r.out != c.expected {
                    return Judgement::violation("complete-stream-wrong-output", what(&format!("finish after completion: {} bytes, expected {}", r.out.len(), c.expected.len()), r.steps.len()));
                }
            }
            M::Live => {}
        }
        if after > 0 {
            st.nontrivial(c);
            st.sample(&format!("{} / {}", c.kind, if matches!(m, M::Failed(_)) { "Failed" } else { "Complete" }), || {
                json!({"input": hex_prefix(&c.input, 32), "input_len": c.input.len(), "opts": format!("{:?}", c.opts),
                       "script": c.script.iter().take(20).map(|x| format!("{:?}", x)).collect::<Vec<_>>(), "calls_after_transition": after})
            });
        }
        Judgement::Pass
    }
}
