//! C12 — I/O failures propagate as errors and never corrupt what was written.
//! Per generated input: every write-call and every read-call fault position.

use crate::gen::bytes::*;
use crate::gen::lzma2::abs_chunks;
use crate::gen::xz::abs_xz;
use crate::iowrap::SinkCfg;
use crate::runner::*;
use crate::sut::{self, Call, CompOpt, Io, Opts, ReaderKind, Verdict};
use proptest::prelude::*;
use serde::{Deserialize, Serialize};
use serde_json::json;

#[derive(Clone, Copy, Debug, PartialEq, Eq, Hash, Serialize, Deserialize)]
pub enum Entry {
    /// 0: default options; 1: ReadHeaderButUseProvided(Some(true length)); 2: ReadHeaderButUseProvided(None)
    LzmaDecompressOpt(u8),
    LzmaDecompress,
    Lzma2Decompress,
    XzDecompress,
    LzmaCompress(u8),
    Lzma2Compress,
    XzCompress,
    Stream,
}

#[derive(Clone, Debug, PartialEq, Eq, Hash, Serialize, Deserialize)]
pub enum Fault {
    /// k-th sink write call fails (transient: later calls would succeed)
    SinkAt(usize),
    /// like SinkAt, while the sink accepts at most `max` bytes per call
    SinkAtShort { k: usize, max: usize },
    /// k-th source call (read / fill_buf) fails; sticky = all later calls fail too
    SourceAt { k: usize, sticky: bool },
    /// k-th source call fails with ErrorKind::Interrupted (transient, retryable by convention)
    SourceInterrupted { k: usize },
    /// sink accepts only part of each write
    ShortWrites(Vec<usize>),
    FlushFail,
}

#[derive(Clone, Debug, PartialEq, Eq, Hash, Serialize, Deserialize)]
pub struct Case {
    pub entry: Entry,
    #[serde(with = "hexser")]
    pub data: Vec<u8>,
    /// refill pattern of the source reader
    pub pattern: Vec<usize>,
    /// write pieces for Entry::Stream
    pub pieces: Vec<usize>,
    pub focus: Option<Fault>,
    /// how the injected io::Error is built (see iowrap::set_err_style)
    #[serde(default)]
    pub err_style: u8,
}

#[derive(Clone, Debug)]
pub struct Abs {
    entry_sel: u8,
    base: AbsBase,
    plain: Vec<u8>,
    pattern: Vec<usize>,
    chunking: AbsChunking,
}

pub struct C12;

struct Outcome {
    verdict: Verdict,
    out: Vec<u8>,
    writes: usize,
    flushes: usize,
    source_calls: usize,
    flushed_total: u64,
    total: u64,
}

fn run_entry(c: &Case, sink: &SinkCfg, fail_read: Option<(usize, bool)>) -> Outcome {
    run_entry_ext(c, sink, fail_read, false, None)
}

fn run_entry_ext(c: &Case, sink: &SinkCfg, fail_read: Option<(usize, bool)>, interrupted: bool, true_len: Option<u64>) -> Outcome {
    let reader = ReaderKind::Chunky {
        pattern: c.pattern.clone(),
        stops: vec![],
    };
    let io = Io {
        sink: sink.clone(),
        fail_read_at: fail_read.map(|(k, _)| k),
        fail_read_sticky: fail_read.map(|(_, s)| s).unwrap_or(false),
        fail_read_interrupted: interrupted,
        interrupt_burst: None,
    };
    let r = match c.entry {
        Entry::LzmaDecompress => sut::lzma_decompress(&c.data, &Opts::default(), &reader, &io),
        Entry::LzmaDecompressOpt(o) => {
            let opts = match o % 3 {
                0 => Opts::default(),
                1 => Opts::with(sut::USize::ReadHeaderButUseProvided(true_len.or(header_size(&c.data)))),
                _ => Opts::with(sut::USize::ReadHeaderButUseProvided(None)),
            };
            sut::lzma_decompress(&c.data, &opts, &reader, &io)
        }
        Entry::Lzma2Decompress => sut::lzma2_decompress(&c.data, &reader, &io),
        Entry::XzDecompress => sut::xz_decompress(&c.data, &reader, &io),
        Entry::LzmaCompress(o) => {
            let opt = match o % 3 {
                0 => CompOpt::HeaderNone,
                1 => CompOpt::HeaderSome(c.data.len() as u64),
                _ => CompOpt::Skip,
            };
            sut::lzma_compress(&c.data, opt, &reader, &io)
        }
        Entry::Lzma2Compress => sut::lzma2_compress(&c.data, &reader, &io),
        Entry::XzCompress => sut::xz_compress(&c.data, &reader, &io),
        Entry::Stream => {
            let script: Vec<Call> = c.pieces.iter().map(|p| Call::Write(*p)).collect();
            let s = sut::stream_run(&c.data, &Opts::default(), &script, sink, false);
            return Outcome {
                verdict: s.verdict,
                out: s.out,
                writes: s.sink.writes,
                flushes: s.sink.flushes,
                source_calls: 0,
                flushed_total: s.sink.flushed_total,
                total: s.sink.total,
            };
        }
    };
    Outcome {
        verdict: r.verdict,
        out: r.out,
        writes: r.sink.writes,
        flushes: r.sink.flushes,
        source_calls: r.sink.source_calls,
        flushed_total: r.sink.flushed_total,
        total: r.sink.total,
    }
}

/// size field of a 13-byte .lzma header (None = all ones)
fn header_size(d: &[u8]) -> Option<u64> {
    if d.len() < 13 {
        return None;
    }
    let v = u64::from_le_bytes(d[5..13].try_into().unwrap());
    if v == u64::MAX {
        None
    } else {
        Some(v)
    }
}

impl Property for C12 {
    type Abs = Abs;
    type Case = Case;
    fn id(&self) -> &'static str {
        "C12"
    }
    fn level(&self) -> &'static str {
        "fault_enumeration"
    }
    fn exhaustive_per_case(&self) -> bool {
        true
    }
    fn cases(&self, tier: Tier) -> u32 {
        tier.pick(3_000, 30_000)
    }
    fn strategy(&self, _tier: Tier) -> BoxedStrategy<Abs> {
        let base = prop_oneof![
            // small outputs, and outputs several times a 4096-byte window (so that the
            // circular window is flushed to the sink in mid-stream)
            36 => abs_lzma_file(20, 10, 1500).prop_map(|mut f| { f.h13 = true; AbsBase::Lzma(f) }),
            24 => (abs_lzma_file(20, 20, 30_000), 16u16..80, any::<u16>()).prop_map(|(mut f, k, dsel)| {
                f.h13 = true;
                f.dict = f.dict.min(4097);
                f.prog.insert(0, crate::gen::program::AbsOp::Lit(crate::gen::program::LitKind::Given, k as u8));
                f.prog.insert(1, crate::gen::program::AbsOp::Lit(crate::gen::program::LitKind::Noise, 3));
                f.prog.insert(2, crate::gen::program::AbsOp::Run {
                    k,
                    op: Box::new(crate::gen::program::AbsOp::Match { dclass: 6, dsel, lclass: 6, lsel: 0 }),
                });
                AbsBase::Lzma(f)
            }),
            36 => abs_chunks(4, 10, 10, false).prop_map(AbsBase::Lzma2),
            36 => abs_xz(3, 2, 8, 600).prop_map(AbsBase::Xz),
            1 => (abs_xz(1, 1, 4, 3 << 20), 5000u16..9000, any::<u16>()).prop_map(|(mut x, k, dsel)| {
                // one block decompressing to more than 1 MiB
                use crate::gen::lzma2::AbsChunk;
                use crate::gen::program::{AbsOp, LitKind};
                use crate::refmodel::model::Props;
                if let Some(b) = x.blocks.first_mut() {
                    b.chunks = vec![AbsChunk::Lzma {
                        reset: 3,
                        props: Props::new(3, 0, 2),
                        lead: 0,
                        exact64k: 0,
                        prog: vec![
                            AbsOp::Lit(LitKind::Given, k as u8),
                            AbsOp::Lit(LitKind::Noise, 1),
                            AbsOp::Run { k, op: Box::new(AbsOp::Match { dclass: 6, dsel, lclass: 6, lsel: 0 }) },
                        ],
                    }];
                }
                AbsBase::Xz(x)
            }),
        ];
        (
            0u8..14,
            base,
            prop_oneof![
                3 => Just(vec![]),
                24 => prop::collection::vec(any::<u8>(), 1..300),
                8 => prop::collection::vec(prop::sample::select(vec![0u8, 0xFF, 7]), 1..1500),
                1 => prop::collection::vec(any::<u8>(), 64_000..70_000),
            ],
            prop_oneof![
                2 => Just(vec![usize::MAX]),
                2 => Just(vec![7usize]),
                2 => prop::collection::vec(1usize..900, 1..4),
            ],
            abs_chunking(),
        )
            .prop_map(|(entry_sel, base, plain, pattern, chunking)| Abs {
                entry_sel,
                base,
                plain,
                pattern,
                chunking,
            })
            .boxed()
    }
    fn concretize(&self, a: &Abs) -> Case {
        // pick the entry point; decoders take the generated stream of their format
        let (entry, data) = match (&a.base, a.entry_sel) {
            (_, 0) => (Entry::LzmaCompress(0), a.plain[..a.plain.len().min(2500)].to_vec()),
            (_, 1) => (Entry::LzmaCompress(1), a.plain[..a.plain.len().min(2500)].to_vec()),
            (_, 2) => (Entry::LzmaCompress(2), a.plain[..a.plain.len().min(2500)].to_vec()),
            (_, 3) => (Entry::Lzma2Compress, a.plain.clone()),
            (_, 4) | (_, 5) => (Entry::XzCompress, a.plain.clone()),
            (AbsBase::Lzma(_), s) if s % 2 == 0 => (Entry::Stream, build_base(&a.base)),
            (AbsBase::Lzma(_), s) if s % 4 == 3 => {
                let d = build_base(&a.base);
                // option 2 (no size in effect) only for streams that carry an end marker
                let o = if header_size(&d).is_none() { 2 } else { 1 };
                (Entry::LzmaDecompressOpt(o), d)
            }
            (AbsBase::Lzma(_), _) => (Entry::LzmaDecompress, build_base(&a.base)),
            (AbsBase::Lzma2(_), _) => (Entry::Lzma2Decompress, build_base(&a.base)),
            (AbsBase::Xz(_), _) => (Entry::XzDecompress, build_base(&a.base)),
            (AbsBase::Random(_), _) => (Entry::XzCompress, a.plain.clone()),
        };
        let pieces = concretize_chunking(&a.chunking, data.len(), 13, &[]);
        Case {
            entry,
            data,
            pattern: a.pattern.clone(),
            pieces,
            focus: None,
            err_style: match hash64(&(&a.plain, &a.pattern)) % 12 {
                0..=3 | 9 => 0,
                10 => 6, // WouldBlock
                11 => 8, // TimedOut (7 = Interrupted is left out: read_exact / write_all retry it by contract)
                k => (k - 3) as u8,
            },
        }
    }
    fn rule(&self) -> String {
        "proptest generates an input for one of {lzma_decompress, lzma2_decompress, xz_decompress, lzma_compress (3 options), lzma2_compress, xz_compress, Stream(write*/finish)} (valid streams incl. LZMA outputs several times a 4096-byte window; plain data 0..1500 bytes) and a source fragmentation; a dry run with counting wrappers gives W write calls and R source calls; then the check ENUMERATES: for every k < W the k-th sink write fails; for every k < R the k-th source call (read/fill_buf) fails (transient); the injected io::Error is built in one of eight ways per case (kind Other with text, kind Other / BrokenPipe without payload, from_raw_os_error, UnexpectedEof, InvalidData, WouldBlock, TimedOut); sampled: the same with a sink that accepts at most 3 bytes per call; sinks accepting 1 byte / a random short count per call (no fault); a failing flush. Oracle: a fault => Err (not Ok, not panic) and the bytes the sink accepted are a prefix of the fault-free output; short-write sinks => Ok and complete identical output; failing flush => LZMA / LZMA2 decoders Err; on success the LZMA / LZMA2 decoders have flushed after their last write. Non-trivial = fault position k >= 1; distinct = (input hash, fault).".into()
    }
    fn required_classes(&self, tier: Tier) -> Vec<(&'static str, u64)> {
        let k = tier.pick(1, 10);
        vec![
            ("fault:sink", 20_000 * k),
            ("fault:source", 20_000 * k),
            ("fault:short-writes", 3000 * k),
            ("fault:flush", 1000 * k),
            ("fault:source interrupted", 20_000 * k),
            ("entry:LzmaDecompressOpt", 50 * k),
            ("xz block output > 1 MiB", 3 * k),
            ("entry:Stream", 100 * k),
            ("entry:XzCompress", 100 * k),
            ("entry:LzmaDecompress", 100 * k),
            ("entry:Lzma2Decompress", 100 * k),
            ("entry:XzDecompress", 100 * k),
            ("lzma window flushed mid-stream (>=2 sink writes)", 50 * k),
        ]
    }

    fn judge(&self, c: &mut Case, st: &mut LocalStats) -> Judgement {
        let _style = crate::iowrap::set_err_style(c.err_style);
        st.class(match c.err_style {
            0 => "error:new(Other, text)",
            1 => "error:from(Other), no payload",
            2 => "error:from(BrokenPipe)",
            3 => "error:from_raw_os_error",
            4 => "error:new(UnexpectedEof, text)",
            6 => "error:new(WouldBlock, text)",
            8 => "error:new(TimedOut, text)",
            _ => "error:new(InvalidData, text)",
        });
        let clean = run_entry(c, &SinkCfg::default(), None);
        if !clean.verdict.is_ok() {
            return Judgement::HarnessBug(format!(
                "fault-free run of {:?} fails: {} (input {})",
                c.entry,
                clean.verdict.brief(),
                hex_prefix(&c.data, 32)
            ));
        }
        let good = clean.out.clone();
        let w = clean.writes;
        let r = clean.source_calls;
        let dh = hash64(&(c.entry, &c.data, &c.pattern, &c.pieces));
        let ename = format!("{:?}", c.entry);
        let ename = ename.split('(').next().unwrap().to_string();
        st.class(&format!("entry:{}", ename));
        if c.entry == Entry::XzDecompress && good.len() > (1 << 20) {
            st.class("xz block output > 1 MiB");
        }
        if matches!(c.entry, Entry::LzmaDecompress | Entry::LzmaDecompressOpt(_) | Entry::Stream) && w >= 2 {
            st.class("lzma window flushed mid-stream (>=2 sink writes)");
        }
        st.sample(&ename, || {
            json!({"entry": format!("{:?}", c.entry), "input": hex_prefix(&c.data, 32), "input_len": c.data.len(), "source_pattern": c.pattern,
                   "fault_free": format!("{} sink writes, {} source calls, {} flushes, {} output bytes", w, r, clean.flushes, good.len())})
        });
        let is_decoder = matches!(c.entry, Entry::LzmaDecompress | Entry::LzmaDecompressOpt(_) | Entry::Lzma2Decompress | Entry::Stream);
        if is_decoder && clean.flushed_total != clean.total {
            return Judgement::violation(
                "no-final-flush",
                format!("{:?}: success, but {} of {} bytes were written after the last flush", c.entry, clean.total - clean.flushed_total, clean.total),
            );
        }
        // ---- the fault list
        let mut faults: Vec<Fault> = Vec::new();
        if let Some(f) = &c.focus {
            faults.push(f.clone());
        } else {
            // all positions up to 3000 calls; beyond that the first 1000, the last
            // 1000 and 1000 evenly spread ones
            let big = c.data.len() > 10_000;
            let positions = |n: usize| -> Vec<usize> {
                if big && n > 300 {
                    let mut v: Vec<usize> = (0..100).collect();
                    v.extend((0..100).map(|i| 100 + i * (n - 200) / 100));
                    v.extend(n - 100..n);
                    v.dedup();
                    v
                } else if n <= 3000 {
                    (0..n).collect()
                } else {
                    let mut v: Vec<usize> = (0..1000).collect();
                    v.extend((0..1000).map(|i| 1000 + i * (n - 2000) / 1000));
                    v.extend(n - 1000..n);
                    v.dedup();
                    v
                }
            };
            for k in positions(w) {
                faults.push(Fault::SinkAt(k));
            }
            for k in positions(r) {
                faults.push(Fault::SourceInterrupted { k });
                faults.push(Fault::SourceAt { k, sticky: false });
                if k % 3 == 0 {
                    faults.push(Fault::SourceAt { k, sticky: true });
                }
            }
            faults.push(Fault::ShortWrites(vec![1]));
            faults.push(Fault::ShortWrites(vec![3, 1, 1000, 2]));
            faults.push(Fault::ShortWrites(vec![1000, 1]));
            faults.push(Fault::FlushFail);
            // with max 3 bytes per call the number of calls grows; sample positions
            let short = run_entry(c, &SinkCfg { max_per_write: vec![3], ..Default::default() }, None);
            let ws = short.writes;
            for i in 0..ws.min(40) {
                let k = if ws <= 40 { i } else { (i * ws) / 40 };
                faults.push(Fault::SinkAtShort { k, max: 3 });
            }
        }
        for f in faults {
            st.eval();
            if let Fault::SourceInterrupted { k } = &f {
                // Interrupted is retryable by convention: the call may report it (Err) or retry
                // (Ok with the complete, identical output) - never Ok with anything else
                let o = run_entry_ext(c, &SinkCfg::default(), Some((*k, false)), true, None);
                st.class("fault:source interrupted");
                if *k >= 1 {
                    st.nontrivial(&(dh, &f));
                }
                let bad = match &o.verdict {
                    Verdict::Ok => o.out != good,
                    Verdict::Err(_) => !(o.out.len() <= good.len() && o.out[..] == good[..o.out.len()]),
                    Verdict::Panic(_) => true,
                };
                if bad {
                    c.focus = Some(f.clone());
                    return Judgement::violation(
                        format!("interrupted-read-mishandled:{}", ename),
                        format!(
                            "{:?} on input({}B)={} source pattern {:?}: source call #{} returns ErrorKind::Interrupted once -> verdict {} with {} sink bytes (fault-free: {} bytes)",
                            c.entry,
                            c.data.len(),
                            hex_prefix(&c.data, 32),
                            c.pattern,
                            k,
                            o.verdict.brief(),
                            o.out.len(),
                            good.len()
                        ),
                    );
                }
                continue;
            }
            let (sink, rd) = match &f {
                Fault::SourceInterrupted { .. } => unreachable!(),
                Fault::SinkAt(k) => (SinkCfg { fail_write_at: Some(*k), ..Default::default() }, None),
                Fault::SinkAtShort { k, max } => (
                    SinkCfg { fail_write_at: Some(*k), max_per_write: vec![*max], ..Default::default() },
                    None,
                ),
                Fault::SourceAt { k, sticky } => (SinkCfg::default(), Some((*k, *sticky))),
                Fault::ShortWrites(p) => (SinkCfg { max_per_write: p.clone(), ..Default::default() }, None),
                Fault::FlushFail => (SinkCfg { fail_flush: true, ..Default::default() }, None),
            };
            let o = run_entry(c, &sink, rd);
            let pos = match &f {
                Fault::SinkAt(k) | Fault::SinkAtShort { k, .. } | Fault::SourceAt { k, .. } | Fault::SourceInterrupted { k } => *k,
                _ => 1,
            };
            if pos >= 1 {
                st.nontrivial(&(dh, &f));
            }
            let what = format!(
                "{:?} on input({}B)={} source pattern {:?} pieces {:?}, fault {:?}: verdict {} ; sink has {} bytes (fault-free output: {} bytes, {} writes, {} source calls)",
                c.entry,
                c.data.len(),
                hex_prefix(&c.data, 32),
                c.pattern,
                &c.pieces[..c.pieces.len().min(12)],
                f,
                o.verdict.brief(),
                o.out.len(),
                good.len(),
                w,
                r
            );
            let is_prefix = o.out.len() <= good.len() && o.out[..] == good[..o.out.len()];
            match &f {
                Fault::SinkAt(_) | Fault::SinkAtShort { .. } | Fault::SourceAt { .. } => {
                    st.class(if matches!(f, Fault::SourceAt { .. }) { "fault:source" } else { "fault:sink" });
                    match &o.verdict {
                        Verdict::Ok => {
                            c.focus = Some(f.clone());
                            return Judgement::violation(
                                format!("fault-swallowed:{}:{}", ename, if matches!(f, Fault::SourceAt { .. }) { "source" } else { "sink" }),
                                format!("an injected I/O failure is not reported: {}", what),
                            );
                        }
                        Verdict::Panic(p) => {
                            c.focus = Some(f.clone());
                            return Judgement::violation(format!("panic:{}", sut::panic_site(p)), format!("I/O failure causes a panic: {}", what));
                        }
                        Verdict::Err(_) => {}
                    }
                    if !is_prefix {
                        c.focus = Some(f.clone());
                        return Judgement::violation(
                            format!("not-a-prefix:{}", ename),
                            format!("bytes accepted by the sink before the failure are not a prefix of the correct output: {}", what),
                        );
                    }
                }
                Fault::SourceInterrupted { .. } => {}
                Fault::ShortWrites(_) => {
                    st.class("fault:short-writes");
                    if !o.verdict.is_ok() || o.out != good {
                        c.focus = Some(f.clone());
                        return Judgement::violation(
                            format!("short-write-loses-data:{}", ename),
                            format!("a sink that accepts only part of each write does not receive the complete data: {}", what),
                        );
                    }
                }
                Fault::FlushFail => {
                    st.class("fault:flush");
                    if is_decoder {
                        if o.verdict.is_ok() {
                            c.focus = Some(f.clone());
                            return Judgement::violation(format!("flush-error-swallowed:{}", ename), format!("failing flush not reported: {}", what));
                        }
                        if o.verdict.is_panic() {
                            c.focus = Some(f.clone());
                            return Judgement::violation("panic:flush", what);
                        }
                    } else if o.verdict.is_panic() {
                        c.focus = Some(f.clone());
                        return Judgement::violation("panic:flush", what);
                    } else if o.verdict.is_ok() && o.out != good {
                        c.focus = Some(f.clone());
                        return Judgement::violation("flush:wrong-output", what);
                    }
                }
            }
        }
        Judgement::Pass
    }
}
