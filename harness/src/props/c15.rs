//! C15 — Streaming output is always a prefix of the final output and keeps up with input.

use crate::gen::program::*;
use crate::iowrap::SinkCfg;
use crate::refmodel::enc::{encode_lzma, lzma_header, lzma_header5};
use crate::refmodel::model::Props;
use crate::refmodel::program::{interpret, program_text, Op};
use crate::runner::*;
use crate::sut::{self, Call, Opts, USize, Verdict};
use proptest::prelude::*;
use serde::{Deserialize, Serialize};
use serde_json::json;

pub const LOOKAHEAD: usize = 64;

#[derive(Clone, Debug, Hash, Serialize, Deserialize)]
pub struct Case {
    pub props: Props,
    pub dict: u32,
    pub ops: Vec<Op>,
    /// 0 marker/unknown size, 1 size in header, 2 size + marker
    pub term: u8,
    pub h13: bool,
    /// cyclic piece-size pattern for the third chunking
    pub pattern: Vec<usize>,
    /// Some((prefix length, chunking index 0..3)): only this one
    pub focus: Option<(usize, u8)>,
    /// sample at most this many prefix lengths (None = all)
    pub max_prefixes: Option<usize>,
    /// match-length code of the end marker (2 = conventional)
    #[serde(default = "two")]
    pub marker_len: u32,
    /// the sink accepts at most this many bytes per write call (0 = everything)
    #[serde(default)]
    pub sink_max: usize,
}

fn two() -> u32 {
    2
}

pub struct C15;

impl Property for C15 {
    type Abs = (Props, u32, Vec<AbsOp>, u8, bool, Vec<usize>, usize);
    type Case = Case;
    fn id(&self) -> &'static str {
        "C15"
    }
    fn cases(&self, tier: Tier) -> u32 {
        tier.pick(1_000, 12_000)
    }
    fn strategy(&self, tier: Tier) -> BoxedStrategy<Self::Abs> {
        let small = (
            props_any(),
            dict_header(),
            abs_program(40, 12),
            0u8..3,
            prop::bool::weighted(0.7),
            prop::collection::vec(prop_oneof![1 => Just(0usize), 6 => 1usize..24, 2 => 24usize..100], 1..6),
            Just(3000usize),
        );
        let large = (
            props_any(),
            dict_header(),
            abs_program(tier.pick(300, 600), 200),
            0u8..3,
            prop::bool::weighted(0.7),
            prop::collection::vec(prop_oneof![6 => 1usize..24, 2 => 24usize..400], 1..6),
            Just(100_000usize),
        );
        prop_oneof![5 => small, 1 => large].boxed()
    }
    fn concretize(&self, a: &Self::Abs) -> Case {
        let ops = concretize(
            &a.2,
            ConcCfg {
                dict: (a.1 as u64).max(4096),
                max_out: a.6,
                max_ops: 5000,
            },
        );
        Case {
            props: a.0,
            dict: a.1,
            ops,
            term: a.3,
            h13: a.4,
            pattern: a.5.clone(),
            focus: None,
            max_prefixes: Some(700),
            marker_len: if a.5.len() % 3 == 0 { 2 + (a.5[0] as u32 % 272) } else { 2 },
            sink_max: if a.5.len() % 2 == 0 { 1 + a.5[0] % 9 } else { 0 },
        }
    }
    fn fixed_cases(&self, _tier: Tier) -> Vec<Case> {
        // the worst-case (~17-byte) symbol stream: every prefix around its end
        vec![Case {
            props: Props::new(0, 0, 0),
            dict: 1 << 20,
            ops: super::worst::worst_case_program(),
            term: 0,
            h13: true,
            pattern: vec![1, 5, 19],
            focus: None,
            max_prefixes: Some(300),
            // the marker is the expensive symbol only when it is coded with length 273
            marker_len: 273,
            sink_max: 0,
        }]
    }
    fn rule(&self) -> String {
        "proptest generates a valid LZMA stream (any lc/lp/pb, 13- or 5-byte header, marker / size / both) with the reference encoder's per-symbol table T[i] = (bytes consumed, bytes produced); with allow_incomplete = true the check ENUMERATES every prefix length p of the stream (all p for streams up to 700 bytes, 700 evenly spread p for longer ones) under three chunkings (all at once, one byte per write, a generated cyclic pattern incl. empty pieces): write the prefix, then finish. Oracle: no write fails; for p >= header + 5: finish is Ok, the bytes in the sink are a prefix of the complete output, and their number is >= produced_j for the last symbol j with header + consumed_j <= p - 64; for smaller p only 'no panic' is asserted. Since the sink is append-only, every intermediate get_output() state is a prefix of the final one. Non-trivial = p falls strictly inside a symbol's bytes and at least one symbol is already determined; distinct = (stream hash, p, chunking).".into()
    }
    fn required_classes(&self, tier: Tier) -> Vec<(&'static str, u64)> {
        let k = tier.pick(1, 10);
        vec![
            ("prefix cuts a symbol", 50_000 * k),
            ("prefix:inside header/preamble", 5000 * k),
            ("lag:0 bytes behind the table", 10_000 * k),
            ("header:13", 500 * k),
            ("header:5", 200 * k),
            ("term:size", 300 * k),
            ("term:marker", 300 * k),
            ("short-writing sink", 50_000 * k),
        ]
    }

    fn judge(&self, c: &mut Case, st: &mut LocalStats) -> Judgement {
        let full = match interpret(&c.ops, (c.dict as u64).max(4096)) {
            Ok(o) => o,
            Err(e) => return Judgement::HarnessBug(format!("{:?}", e)),
        };
        let (marker, size) = match c.term % 3 {
            0 => (Some(c.marker_len.clamp(2, 273)), None),
            1 => (None, Some(full.len() as u64)),
            _ => (Some(c.marker_len.clamp(2, 273)), Some(full.len() as u64)),
        };
        let enc = encode_lzma(c.props, &c.ops, marker);
        let mut file = if c.h13 {
            lzma_header(c.props, c.dict, size)
        } else {
            lzma_header5(c.props, c.dict)
        };
        let hl = file.len();
        file.extend_from_slice(&enc.payload);
        let n = file.len();
        let mut opts = if c.h13 {
            Opts::with(USize::ReadFromHeader)
        } else {
            Opts::with(USize::UseProvided(size))
        };
        opts.allow_incomplete = true;
        st.class(if c.h13 { "header:13" } else { "header:5" });
        st.class(match c.term % 3 {
            0 => "term:marker",
            1 => "term:size",
            _ => "term:size+marker",
        });
        let sh = hash64(&(c.props, c.dict, &c.ops, c.term, c.h13));
        st.sample(if n > 700 { "long stream (sampled prefixes)" } else { "short stream (all prefixes)" }, || {
            json!({"props": c.props, "dict": c.dict, "program": program_text(&c.ops, 16), "stream_len": n, "output_len": full.len(), "pattern": c.pattern})
        });
        // absolute end offsets and produced counts per symbol
        let ends: Vec<(usize, usize)> = enc.table.iter().map(|t| (hl + t.consumed as usize, t.produced as usize)).collect();
        let prefixes: Vec<usize> = match (&c.focus, c.max_prefixes) {
            (Some((p, _)), _) => vec![*p],
            (None, Some(m)) if n + 1 > m => {
                let mut v: Vec<usize> = (0..m).map(|i| i * n / (m - 1)).collect();
                v.extend(n.saturating_sub(40)..=n);
                v.sort_unstable();
                v.dedup();
                v
            }
            _ => (0..=n).collect(),
        };
        for p in prefixes {
            let input = &file[..p];
            // symbols fully determined by p - LOOKAHEAD bytes
            // (VERIF_C15_LOOKAHEAD is for experiments only: the property states 64)
            let la = std::env::var("VERIF_C15_LOOKAHEAD").ok().and_then(|s| s.parse().ok()).unwrap_or(LOOKAHEAD);
            let need = if p >= la {
                let lim = p - la;
                let idx = ends.partition_point(|(e, _)| *e <= lim);
                if idx == 0 {
                    0
                } else {
                    ends[idx - 1].1
                }
            } else {
                0
            };
            let cuts_symbol = p > hl + 5 && ends.binary_search_by(|(e, _)| e.cmp(&p)).is_err() && p < n;
            for ck in 0..3u8 {
                if let Some((_, fk)) = c.focus {
                    if fk != ck {
                        continue;
                    }
                }
                let script: Vec<Call> = match ck {
                    0 => vec![Call::Write(p)],
                    1 => std::iter::repeat(Call::Write(1)).take(p).collect(),
                    _ => {
                        let mut v = Vec::new();
                        let mut left = p;
                        let mut i = 0;
                        while left > 0 {
                            let k = c.pattern[i % c.pattern.len()].min(left);
                            v.push(Call::Write(k));
                            left -= k;
                            i += 1;
                            if i > 4 * p + 8 {
                                v.push(Call::Write(left));
                                break;
                            }
                        }
                        v
                    }
                };
                st.eval();
                let sink_cfg = SinkCfg {
                    max_per_write: if c.sink_max > 0 { vec![c.sink_max, 4096] } else { vec![] },
                    ..Default::default()
                };
                if c.sink_max > 0 {
                    st.class("short-writing sink");
                }
                let r = sut::stream_run(input, &opts, &script, &sink_cfg, false);
                if p < hl + 5 {
                    st.class("prefix:inside header/preamble");
                } else if cuts_symbol {
                    st.class("prefix cuts a symbol");
                    if need > 0 {
                        st.nontrivial(&(sh, p, ck));
                    }
                }
                let what = |msg: &str| -> String {
                    format!(
                        "{}: props={:?} dict={} header={} term={} ops=[{}] stream {}B, prefix p={} fed as {} -> verdict {} (finish {}), sink {}B, complete output {}B, required >= {}B",
                        msg,
                        c.props,
                        c.dict,
                        hl,
                        c.term % 3,
                        program_text(&c.ops, 20),
                        n,
                        p,
                        match ck { 0 => "one write".to_string(), 1 => "1-byte writes".to_string(), _ => format!("pattern {:?}", c.pattern) },
                        r.verdict.brief(),
                        r.finish.brief(),
                        r.out.len(),
                        full.len(),
                        need
                    )
                };
                if let Verdict::Panic(pn) = &r.verdict {
                    c.focus = Some((p, ck));
                    return Judgement::violation(format!("panic:{}", sut::panic_site(pn)), what("panic"));
                }
                if p < hl + 5 {
                    continue;
                }
                if r.first_err_step.is_some() {
                    c.focus = Some((p, ck));
                    return Judgement::violation("write-fails-on-valid-prefix", what("a write of a prefix of a valid stream fails"));
                }
                if !r.finish.is_ok() {
                    c.focus = Some((p, ck));
                    return Judgement::violation("finish-fails-with-allow-incomplete", what("finish fails although incomplete input is allowed"));
                }
                if r.out.len() > full.len() || r.out[..] != full[..r.out.len()] {
                    c.focus = Some((p, ck));
                    return Judgement::violation("not-a-prefix", what("streamed output is not a prefix of the complete output"));
                }
                if r.out.len() < need {
                    c.focus = Some((p, ck));
                    return Judgement::violation("lags-behind", what("output lags more than the 64-byte look-ahead behind the input"));
                }
                // how far behind the table (informational)
                let idx = ends.partition_point(|(e, _)| *e <= p);
                let determined = if idx == 0 { 0 } else { ends[idx - 1].1 };
                if r.out.len() >= determined {
                    st.class("lag:0 bytes behind the table");
                } else {
                    st.class("lag:some symbols pending");
                    // input bytes written beyond the end of the first undelivered symbol
                    let k = ends.partition_point(|(_, prod)| *prod <= r.out.len());
                    if k < ends.len() && ends[k].0 <= p {
                        st.max("largest observed lag in input bytes (allowed: 64)", (p - ends[k].0) as u64);
                    }
                }
            }
        }
        Judgement::Pass
    }
}
