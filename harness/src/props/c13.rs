//! C13 — Results do not depend on how the input reader fragments its data.

use super::c05::choose_opts;
use super::c06::field_mutations;
use crate::gen::bytes::*;
use crate::gen::program::*;
use crate::gen::xz::*;
use crate::refmodel::model::Props;
use crate::refmodel::xz::write_xz;
use crate::runner::*;
use crate::sut::{self, Io, Opts, ReaderKind, Run, Verdict};
use proptest::prelude::*;
use serde::{Deserialize, Serialize};
use serde_json::json;

#[derive(Clone, Copy, Debug, PartialEq, Eq, Hash, Serialize, Deserialize)]
pub enum Format {
    Lzma(Opts),
    LzmaRaw { props: Props, dict: u32, size: Option<u64> },
    Lzma2,
    Lzma2Raw,
    Xz,
}

#[derive(Clone, Debug, PartialEq, Eq, Hash, Serialize, Deserialize)]
pub struct Case {
    pub format: Format,
    #[serde(with = "hexser")]
    pub input: Vec<u8>,
    pub reader: ReaderKind,
    pub kind: String,
}

#[derive(Clone, Debug)]
pub enum AbsInput {
    Lzma { file: AbsLzmaFile, osel: u8, nsel: u8, nraw: u16, raw: bool },
    Lzma2 { chunks: Vec<crate::gen::lzma2::AbsChunk>, raw_api: bool },
    Xz { file: AbsXz, sealed: Option<u16> },
    Random { bytes: Vec<u8>, fmt: u8 },
    /// LZMA2 stream with one out-of-window reference (from C09's generator)
    Lzma2Bad { c09: super::c09::Abs, raw_api: bool },
}

#[derive(Clone, Debug)]
pub struct Abs {
    input: AbsInput,
    muts: Vec<AbsMut>,
    rkind: u8,
    cap: usize,
    pattern: Vec<usize>,
    stop_sels: Vec<u16>,
}

pub struct C13;

pub fn run_format(format: &Format, input: &[u8], reader: &ReaderKind, io: &Io) -> Run {
    match format {
        Format::Lzma(o) => sut::lzma_decompress(input, o, reader, io),
        Format::LzmaRaw { props, dict, size } => sut::raw_lzma(*props, *dict, *size, None, input, reader, io),
        Format::Lzma2 => sut::lzma2_decompress(input, reader, io),
        Format::Lzma2Raw => sut::raw_lzma2(input, reader, io),
        Format::Xz => sut::xz_decompress(input, reader, io),
    }
}

/// Build (format, input bytes, interesting offsets, kind) from an abstract input.
pub fn build_input(a: &AbsInput, muts: &[AbsMut]) -> (Format, Vec<u8>, Vec<usize>, String) {
    let (format, base, bounds, mut kind): (Format, Vec<u8>, Vec<usize>, String) = match a {
        AbsInput::Lzma { file, osel, nsel, nraw, raw } => {
            let f = build_lzma_file(file);
            let mut b = vec![1, 4, 5, 12, 13, 17, 18];
            b.extend(f.sym_ends.iter().rev().take(3).copied());
            if *raw {
                let size = if f.has_size { Some(f.output.len() as u64) } else { None };
                (
                    Format::LzmaRaw { props: f.props, dict: f.dict.max(1), size },
                    f.bytes[f.header_len..].to_vec(),
                    b,
                    "lzma-raw".into(),
                )
            } else {
                let o = choose_opts(*osel, *nsel, *nraw, file.h13, f.output.len() as u64);
                (Format::Lzma(o), f.bytes, b, "lzma".into())
            }
        }
        AbsInput::Lzma2 { chunks, raw_api } => {
            let bytes = build_base(&AbsBase::Lzma2(chunks.clone()));
            let n = bytes.len();
            (
                if *raw_api { Format::Lzma2Raw } else { Format::Lzma2 },
                bytes,
                vec![1, 2, 3, 5, 6, n.saturating_sub(1)],
                "lzma2".into(),
            )
        }
        AbsInput::Xz { file, sealed } => {
            let c = concretize_xz(file);
            match build_spec(&c) {
                Ok(spec) => {
                    let valid = write_xz(&spec, None);
                    let mut kind = "xz".to_string();
                    let f = match sealed {
                        Some(sel) => {
                            let mut all: Vec<crate::refmodel::xz::Mut> = field_mutations(&spec, &valid).into_iter().map(|(m, _)| m).collect();
                            // whole-file variants: a second stream / stream padding after the
                            // footer, unsupported check ids in both flag fields
                            use crate::refmodel::xz::Mut;
                            for _ in 0..(all.len() / 12).max(1) {
                                all.push(Mut::Trailing(valid.bytes.clone()));
                                all.push(Mut::Trailing(vec![0; 4]));
                                all.push(Mut::BothFlags([0, 0x0A]));
                                all.push(Mut::BothFlags([0, 0x02]));
                            }
                            let m = &all[pick(*sel, 0, all.len() as u64 - 1) as usize];
                            kind = match m {
                                Mut::Trailing(_) => "xz-with-trailing-stream-or-padding".into(),
                                Mut::BothFlags(_) => "xz-unsupported-check".into(),
                                _ => "xz-sealed-mutation".into(),
                            };
                            write_xz(&spec, Some(m))
                        }
                        None => valid,
                    };
                    let b = f.layout.boundaries.clone();
                    (Format::Xz, f.bytes, b, kind)
                }
                Err(_) => (Format::Xz, vec![], vec![], "xz".into()),
            }
        }
        AbsInput::Lzma2Bad { c09, raw_api } => {
            use crate::runner::Property;
            let case = super::c09::C09.concretize(c09);
            let bytes = super::c09::lzma2_case_bytes(&case).unwrap_or_default();
            let n = bytes.len();
            (
                if *raw_api { Format::Lzma2Raw } else { Format::Lzma2 },
                bytes,
                (1..n.min(40)).collect(),
                "lzma2-out-of-window".into(),
            )
        }
        AbsInput::Random { bytes, fmt } => (
            match fmt % 4 {
                0 => Format::Lzma(Opts::default()),
                1 => Format::Lzma2,
                2 => Format::Xz,
                _ => Format::Lzma(Opts::with(sut::USize::ReadHeaderButUseProvided(Some(7)))),
            },
            bytes.clone(),
            vec![1, 5, 6, 12, 13],
            "random".into(),
        ),
    };
    let (input, _) = apply_muts(&base, muts);
    if !muts.is_empty() {
        kind.push_str("+mutated");
    }
    (format, input, bounds, kind)
}

pub fn abs_input() -> BoxedStrategy<AbsInput> {
    prop_oneof![
        5 => (abs_lzma_file(30, 20, 20_000), any::<u8>(), any::<u8>(), any::<u16>(), prop::bool::weighted(0.2))
            .prop_map(|(file, osel, nsel, nraw, raw)| AbsInput::Lzma { file, osel, nsel, nraw, raw }),
        3 => (crate::gen::lzma2::abs_chunks(4, 12, 10, false), any::<bool>())
            .prop_map(|(chunks, raw_api)| AbsInput::Lzma2 { chunks, raw_api }),
        6 => (abs_xz(3, 2, 8, 3000), prop_oneof![2 => Just(None), 3 => any::<u16>().prop_map(Some)])
            .prop_map(|(file, sealed)| AbsInput::Xz { file, sealed }),
        1 => (random_bytes(100), any::<u8>()).prop_map(|(bytes, fmt)| AbsInput::Random { bytes, fmt }),
        2 => (super::c09::C09.strategy(crate::runner::Tier::Quick), any::<bool>())
            .prop_map(|(c09, raw_api)| AbsInput::Lzma2Bad { c09, raw_api }),
    ]
    .boxed()
}

impl Property for C13 {
    type Abs = Abs;
    type Case = Case;
    fn id(&self) -> &'static str {
        "C13"
    }
    fn cases(&self, tier: Tier) -> u32 {
        tier.pick(300_000, 3_000_000)
    }
    fn strategy(&self, _tier: Tier) -> BoxedStrategy<Abs> {
        (
            abs_input(),
            abs_muts(2),
            0u8..10,
            1usize..=80,
            prop::collection::vec(prop_oneof![5 => 1usize..8, 3 => 8usize..40, 1 => 40usize..2000], 1..6),
            prop::collection::vec(any::<u16>(), 0..4),
        )
            .prop_map(|(input, muts, rkind, cap, pattern, stop_sels)| Abs {
                input,
                muts,
                rkind,
                cap,
                pattern,
                stop_sels,
            })
            .boxed()
    }
    fn concretize(&self, a: &Abs) -> Case {
        let (format, input, bounds, kind) = build_input(&a.input, &a.muts);
        let n = input.len();
        // stops: targeted at format boundaries (-1, 0, +1)
        let mut stops = Vec::new();
        for s in &a.stop_sels {
            if !bounds.is_empty() {
                let b = bounds[pick(*s >> 2, 0, bounds.len() as u64 - 1) as usize];
                let off = (b + (*s as usize & 3)).saturating_sub(1);
                if off > 0 && off < n {
                    stops.push(off);
                }
            }
        }
        let reader = match a.rkind {
            0 | 1 => ReaderKind::BufReader { cap: a.cap, reads: vec![] },
            2 => ReaderKind::BufReader { cap: a.cap, reads: a.pattern.clone() },
            3 => ReaderKind::BufReader { cap: (n + 1).min(a.cap * 40), reads: a.pattern.clone() },
            4 | 5 => ReaderKind::Chunky { pattern: vec![1], stops: vec![] },
            6 | 7 => ReaderKind::Chunky { pattern: vec![usize::MAX], stops },
            _ => ReaderKind::Chunky { pattern: a.pattern.clone(), stops },
        };
        Case {
            format,
            input,
            reader,
            kind,
        }
    }
    fn rule(&self) -> String {
        "proptest generates an input for {lzma_decompress with every option shape, raw::LzmaDecoder, lzma2_decompress, raw::Lzma2Decoder, xz_decompress}: valid streams, byte-level mutations of them, sealed single-field XZ mutations (enclosing CRCs repaired, e.g. a non-zero header padding byte followed by zero bytes), random strings; and a reader {BufReader::with_capacity(1..=80) over full or short reads, 1-byte BufRead, BufRead that exposes everything except for refill boundaries placed at format field boundaries -1/0/+1, BufRead with a random refill pattern}. Oracle: against the same input read from a plain slice: same verdict; on Ok byte-identical output and the same number of bytes consumed; on Err the two sinks are prefix-consistent. Non-trivial = the fragmented reader's first refill ends strictly inside the bytes the slice run consumed; distinct = SipHash of the concrete case.".into()
    }
    fn assumptions(&self) -> Vec<String> {
        vec!["on Err the number of bytes consumed is not compared (read_exact leaves the position unspecified on failure)".into()]
    }
    fn required_classes(&self, tier: Tier) -> Vec<(&'static str, u64)> {
        let k = tier.pick(1, 10);
        vec![
            ("input:xz-sealed-mutation", 3000 * k),
            ("input:xz", 2000 * k),
            ("input:lzma", 5000 * k),
            ("input:lzma2", 3000 * k),
            ("input:lzma-raw", 1000 * k),
            ("input:lzma2-out-of-window", 3000 * k),
            ("input:xz-with-trailing-stream-or-padding", 1000 * k),
            ("input:xz-unsupported-check", 1000 * k),
            ("opt:ReadHeaderButUseProvided", 1500 * k),
            ("verdict:Ok", 5000 * k),
            ("verdict:Err", 5000 * k),
            ("reader:BufReader", 5000 * k),
            ("reader:Chunky", 5000 * k),
        ]
    }

    fn judge(&self, c: &mut Case, st: &mut LocalStats) -> Judgement {
        let io = Io::default();
        st.evals(2);
        let base = run_format(&c.format, &c.input, &ReaderKind::Slice, &io);
        let r = run_format(&c.format, &c.input, &c.reader, &io);
        for k in c.kind.split('+') {
            st.class(&format!("input:{}", k));
        }
        if let Format::Lzma(o) = &c.format {
            st.class(match o.usize_ {
                sut::USize::ReadFromHeader => "opt:ReadFromHeader",
                sut::USize::ReadHeaderButUseProvided(_) => "opt:ReadHeaderButUseProvided",
                sut::USize::UseProvided(_) => "opt:UseProvided",
            });
        }
        st.class(&format!("verdict:{}", base.verdict.kind()));
        let first_refill = match &c.reader {
            ReaderKind::BufReader { cap, reads } => {
                st.class("reader:BufReader");
                (*cap).min(reads.first().copied().unwrap_or(usize::MAX))
            }
            ReaderKind::Chunky { pattern, stops } => {
                st.class("reader:Chunky");
                pattern[0].min(stops.iter().copied().min().unwrap_or(usize::MAX))
            }
            _ => usize::MAX,
        };
        if first_refill < base.consumed.max(1) && c.input.len() > 1 {
            st.nontrivial(c);
            st.sample(&format!("{} / {}", c.kind, base.verdict.kind()), || {
                json!({"format": format!("{:?}", c.format), "input": hex_prefix(&c.input, 40), "len": c.input.len(), "reader": format!("{:?}", c.reader), "slice_verdict": base.verdict.brief()})
            });
        }
        let what = |msg: &str| -> String {
            format!(
                "{}: format={:?} input({}B,{})={} reader={:?} : slice -> {} ({}B out, consumed {}) ; fragmented -> {} ({}B out, consumed {})",
                msg,
                c.format,
                c.input.len(),
                c.kind,
                hex_prefix(&c.input, 48),
                c.reader,
                base.verdict.brief(),
                base.out.len(),
                base.consumed,
                r.verdict.brief(),
                r.out.len(),
                r.consumed
            )
        };
        match (&base.verdict, &r.verdict) {
            (Verdict::Ok, Verdict::Ok) => {
                if base.out != r.out {
                    return Judgement::violation("output-differs", what("same input, different output"));
                }
                if base.consumed != r.consumed {
                    return Judgement::violation("consumed-differs", what("same input, different number of bytes consumed"));
                }
            }
            (Verdict::Err(_), Verdict::Err(_)) => {
                let n = base.out.len().min(r.out.len());
                if base.out[..n] != r.out[..n] {
                    return Judgement::violation("error-output-inconsistent", what("both fail, sink contents are not prefix-consistent"));
                }
            }
            (Verdict::Panic(_), Verdict::Panic(_)) => st.class("both panic (left to C07)"),
            (Verdict::Ok, _) => return Judgement::violation("fragmented-rejects", what("slice succeeds, fragmented reader does not")),
            (_, Verdict::Ok) => return Judgement::violation("fragmented-accepts", what("slice fails, fragmented reader succeeds")),
            _ => return Judgement::violation("verdict-differs", what("verdicts differ")),
        }
        Judgement::Pass
    }
}
