//! C04 — Compression round-trips and is format-conformant for every input.

use super::common::*;
use crate::gen::program::pick;
use crate::refmodel::dec::{decode_lzma, EndKind};
use crate::refmodel::lzma2::decode_lzma2;
use crate::refmodel::model::Props;
use crate::refmodel::xz::parse_strict;
use crate::runner::*;
use crate::sut::{self, CompOpt, Io, Opts, ReaderKind, USize};
use proptest::prelude::*;
use serde::{Deserialize, Serialize};
use serde_json::json;

#[derive(Clone, Copy, Debug, PartialEq, Eq, Hash, Serialize, Deserialize)]
pub enum Content {
    Uniform,
    Const(u8),
    /// long runs of one byte with an occasional different byte
    RunsWithFlip(u8),
    /// k-symbol alphabet
    Alphabet(u8),
    /// prefix of /repo/tests/files/range-coder-edge-case (repeated if needed)
    EdgeFile,
    /// 2^32 + len copies of one byte, never materialised (xz_compress only; the
    /// file's index, footer and total length are checked against the format's arithmetic)
    HugeConst(u8),
}

#[derive(Clone, Debug, PartialEq, Eq, Hash, Serialize, Deserialize)]
pub struct DataSpec {
    pub content: Content,
    pub len: usize,
    pub seed: u64,
}

impl DataSpec {
    pub fn bytes(&self) -> Vec<u8> {
        let mut x = self.seed | 1;
        let mut next = move || {
            x ^= x << 13;
            x ^= x >> 7;
            x ^= x << 17;
            x
        };
        let n = self.len;
        match self.content {
            Content::Uniform => (0..n).map(|_| (next() >> 32) as u8).collect(),
            Content::Const(b) => vec![b; n],
            Content::RunsWithFlip(b) => (0..n)
                .map(|_| if next() % 997 == 0 { b ^ 0x10 } else { b })
                .collect(),
            Content::Alphabet(k) => (0..n)
                .map(|_| b'a' + ((next() >> 20) % (k.max(2) as u64)) as u8)
                .collect(),
            Content::HugeConst(_) => vec![],
            Content::EdgeFile => {
                let f = std::fs::read("/repo/tests/files/range-coder-edge-case")
                    .unwrap_or_else(|_| vec![0xFF; 1000]);
                (0..n).map(|i| f[i % f.len()]).collect()
            }
        }
    }
}

#[derive(Clone, Copy, Debug, PartialEq, Eq, Hash, Serialize, Deserialize)]
pub enum Codec {
    Lzma(CompSel),
    Lzma2,
    Xz,
}

#[derive(Clone, Copy, Debug, PartialEq, Eq, Hash, Serialize, Deserialize)]
pub enum CompSel {
    HeaderNone,
    HeaderLen,
    Skip,
}

#[derive(Clone, Debug, PartialEq, Eq, Hash, Serialize, Deserialize)]
pub struct Case {
    pub data: DataSpec,
    pub codec: Codec,
    pub reader: ReaderKind,
}

pub struct C04;

fn len_strategy(big: usize) -> impl Strategy<Value = usize> {
    prop_oneof![
        6 => prop::sample::select(vec![0usize, 1, 2, 3]),
        18 => 4usize..400,
        9 => prop::sample::select(vec![65535usize, 65536, 65537]),
        6 => (1usize..=4, 0usize..3).prop_map(|(k, d)| k * 65536 + d - 1),
        6 => 400usize..20_000,
        6 => (prop::sample::select(vec![128usize, 16384]), 0usize..80).prop_map(|(b, d)| b + d - 40),
        // (weight 1 of ~60 below: a 2 MiB case costs about 100 small ones)
        1 => (0usize..80).prop_map(|d| (1usize << 21) + d - 60),
        3 => (any::<u16>()).prop_map(move |s| pick(s, 20_000, big as u64) as usize),
    ]
}

fn reader_strategy() -> impl Strategy<Value = ReaderKind> {
    prop_oneof![
        3 => Just(ReaderKind::Slice),
        2 => (1usize..40, prop::collection::vec(1usize..50, 0..4))
            .prop_map(|(cap, reads)| ReaderKind::BufReader { cap, reads }),
        2 => Just(ReaderKind::Chunky { pattern: vec![1], stops: vec![] }),
        3 => prop::collection::vec(prop_oneof![3 => 1usize..8, 2 => 8usize..3000, 1 => 60000usize..70000], 1..6)
            .prop_map(|pattern| ReaderKind::Chunky { pattern, stops: vec![] }),
    ]
}

impl Property for C04 {
    type Abs = Case;
    type Case = Case;
    fn id(&self) -> &'static str {
        "C04"
    }
    fn cases(&self, tier: Tier) -> u32 {
        tier.pick(20_000, 200_000)
    }
    fn strategy(&self, tier: Tier) -> BoxedStrategy<Case> {
        let big = tier.pick(300 << 10, 600 << 10);
        let content = prop_oneof![
            4 => Just(Content::Uniform),
            1 => Just(Content::Const(0)),
            2 => Just(Content::Const(0xFF)),
            1 => any::<u8>().prop_map(Content::Const),
            2 => any::<u8>().prop_map(Content::RunsWithFlip),
            2 => (2u8..4).prop_map(Content::Alphabet),
            1 => Just(Content::EdgeFile),
        ];
        let codec = prop_oneof![
            2 => Just(Codec::Lzma(CompSel::HeaderNone)),
            2 => Just(Codec::Lzma(CompSel::HeaderLen)),
            2 => Just(Codec::Lzma(CompSel::Skip)),
            2 => Just(Codec::Lzma2),
            3 => Just(Codec::Xz),
        ];
        (content, len_strategy(big), any::<u64>(), codec, reader_strategy())
            .prop_map(|(content, len, seed, codec, reader)| Case {
                data: DataSpec { content, len, seed },
                codec,
                reader,
            })
            .boxed()
    }
    fn concretize(&self, a: &Case) -> Case {
        a.clone()
    }
    fn rule(&self) -> String {
        "proptest generates byte strings (length classes 0,1,2,..., 65535/65536/65537, k*64KiB-1/+0/+1, random up to 300 KiB (thorough 600 KiB); contents uniform / constant 0x00 / constant 0xFF / runs with a flip / 2-3 symbol alphabets / the repository's range-coder-edge-case file) x encoder {lzma WriteToHeader(None) | WriteToHeader(Some(len)) | SkipWritingToHeader, lzma2, xz} x input reader fragmentation {slice, BufReader(cap 1..40, short reads), 1-byte BufRead, random BufRead}. Oracle: every matching lzma-rs decode option returns the input; the independent reference decoder (LZMA with explicit end rules / strict LZMA2 / strict XZ parser) returns the input and consumes the stream exactly; liblzma (alone / raw LZMA2 / stream decoder) returns the input and a 13-byte .lzma header is one that xz's format auto-detection recognises; for inputs up to 70 000 bytes the same call into a sink that accepts only part of each write delivers the same bytes. Non-trivial = input length >= 2; distinct = SipHash of (data spec, encoder, reader).".into()
    }
    fn required_classes(&self, tier: Tier) -> Vec<(&'static str, u64)> {
        let m = tier.pick(1, 10);
        vec![
            ("len:0", 50 * m),
            ("len:1", 50 * m),
            ("len:65535..65537", 300 * m),
            ("len:k*64KiB+-1", 200 * m),
            ("len:~2MiB (4-byte index integers)", 50 * m),
            ("codec:lzma/marker", 500 * m),
            ("codec:lzma/size", 500 * m),
            ("codec:lzma/skip", 500 * m),
            ("codec:lzma2", 500 * m),
            ("codec:xz", 500 * m),
            ("reader:1-byte", 500 * m),
            ("reader:BufReader", 500 * m),
            ("compressed:0xFF run>=2 (carry path)", 100 * m),
            ("also: sink accepts only part of each write", 2000 * m),
        ]
    }

    fn fixed_cases(&self, tier: Tier) -> Vec<Case> {
        // an input beyond 4 GiB (sizes and counters wider than 32 bits)
        let mut v = vec![Case {
            data: DataSpec { content: Content::HugeConst(0x5A), len: 12_345, seed: 0 },
            codec: Codec::Xz,
            reader: ReaderKind::Slice,
        }];
        if tier.pick(0, 1) == 1 {
            v.push(Case {
                data: DataSpec { content: Content::HugeConst(0), len: 65_536 * 3, seed: 0 },
                codec: Codec::Xz,
                reader: ReaderKind::Slice,
            });
        }
        v
    }

    fn judge(&self, c: &mut Case, st: &mut LocalStats) -> Judgement {
        if let Content::HugeConst(b) = c.data.content {
            return judge_huge(b, (1u64 << 32) + c.data.len as u64, st);
        }
        let data = c.data.bytes();
        let n = data.len() as u64;
        st.class(match data.len() {
            0 => "len:0",
            1 => "len:1",
            2..=399 => "len:2..399",
            65535..=65537 => "len:65535..65537",
            x if x >= 65535 && (x % 65536 <= 1 || x % 65536 == 65535) => "len:k*64KiB+-1",
            x if x >= (1 << 21) - 100 && x <= (1 << 21) + 100 => "len:~2MiB (4-byte index integers)",
            400..=19_999 => "len:400..20k",
            _ => "len:>=20k",
        });
        st.class(match &c.reader {
            ReaderKind::Slice => "reader:slice",
            ReaderKind::Cursor => "reader:cursor",
            ReaderKind::BufReader { .. } => "reader:BufReader",
            ReaderKind::Chunky { pattern, .. } if pattern == &vec![1] => "reader:1-byte",
            ReaderKind::Chunky { .. } => "reader:random",
        });
        if data.len() >= 2 {
            st.nontrivial(c);
            st.sample(&format!("{:?}", c.codec), || {
                json!({"data": c.data, "codec": format!("{:?}", c.codec), "reader": format!("{:?}", c.reader), "input_prefix": hex_prefix(&data, 16)})
            });
        }
        let io = Io::default();
        let cap = data.len() + (1 << 16);
        let bad = |sig: &str, msg: String| -> Judgement {
            Judgement::violation(sig.to_string(), format!("{} ; data={:?} codec={:?} reader={:?}", msg, c.data, c.codec, c.reader))
        };
        st.eval();
        let z_main: Vec<u8>;
        match c.codec {
            Codec::Lzma(sel) => {
                let copt = match sel {
                    CompSel::HeaderNone => CompOpt::HeaderNone,
                    CompSel::HeaderLen => CompOpt::HeaderSome(n),
                    CompSel::Skip => CompOpt::Skip,
                };
                st.class(match sel {
                    CompSel::HeaderNone => "codec:lzma/marker",
                    CompSel::HeaderLen => "codec:lzma/size",
                    CompSel::Skip => "codec:lzma/skip",
                });
                let enc = if sel == CompSel::HeaderNone && c.data.seed % 2 == 0 {
                    // the default-options wrapper lzma_compress
                    sut::lzma_compress_wrapper(&data, &c.reader, &io)
                } else {
                    sut::lzma_compress(&data, copt, &c.reader, &io)
                };
                if !enc.verdict.is_ok() {
                    return bad("compress-failed", format!("lzma_compress: {}", enc.verdict.brief()));
                }
                if enc.consumed != data.len() {
                    return bad("compress-input-not-consumed", format!("lzma_compress consumed {} of {}", enc.consumed, data.len()));
                }
                let z = enc.out;
                if has_ff_run(&z) {
                    st.class("compressed:0xFF run>=2 (carry path)");
                }
                let hl = if sel == CompSel::Skip { 5 } else { 13 };
                // header conformance
                if z.len() < hl + 5 || z[0] != Props::new(3, 0, 2).byte() {
                    return bad("nonconformant", format!("bad header/length: {}", hex_prefix(&z, 24)));
                }
                let dict = u32::from_le_bytes(z[1..5].try_into().unwrap());
                if sel != CompSel::Skip {
                    let field = u64::from_le_bytes(z[5..13].try_into().unwrap());
                    let want = if sel == CompSel::HeaderNone { u64::MAX } else { n };
                    if field != want {
                        return bad("nonconformant", format!("size field {:#x}, want {:#x}", field, want));
                    }
                }
                // independent reference decoder
                let size = if sel == CompSel::HeaderNone { None } else { Some(n) };
                match decode_lzma(Props::new(3, 0, 2), dict as u64, size, &z[hl..], cap) {
                    Ok((out, r, _)) => {
                        if out != data {
                            return bad("nonconformant", format!("reference decoder output differs: {}", first_diff(&out, &data)));
                        }
                        if r.consumed != z.len() - hl {
                            return bad("nonconformant", format!("reference decoder consumed {} of {} payload bytes", r.consumed, z.len() - hl));
                        }
                        if sel == CompSel::HeaderNone && r.end != EndKind::Marker {
                            return bad("nonconformant", format!("stream without size does not end with a proper end marker ({:?})", r.end));
                        }
                    }
                    Err(e) => return bad("nonconformant", format!("reference decoder rejects encoder output: {:?}", e)),
                }
                #[cfg(feature = "liblzma")]
                if sel != CompSel::Skip && !crate::ffi_liblzma::alone_header_ok(&z) {
                    // xz and liblzma's auto-detecting decoder recognise a .lzma file only if the
                    // dictionary size is 2^n or 2^n + 2^(n-1) and a known size is below 256 GiB
                    return bad(
                        "nonconformant",
                        format!("header not recognised as .lzma by xz / liblzma's format auto-detection: {}", hex_prefix(&z, 13)),
                    );
                }
                #[cfg(feature = "liblzma")]
                if sel != CompSel::Skip {
                    let lib = crate::ffi_liblzma::alone(&z, cap);
                    if !lib.ok() || lib.out != data {
                        return bad("nonconformant", format!("liblzma alone decoder: ret={} {}", lib.ret, first_diff(&lib.out, &data)));
                    }
                    st.class("liblzma-second-opinion");
                }
                // lzma-rs with every matching decode option
                let opts: Vec<USize> = match sel {
                    CompSel::HeaderNone => vec![
                        USize::ReadFromHeader,
                        USize::ReadHeaderButUseProvided(None),
                        USize::ReadHeaderButUseProvided(Some(n)),
                    ],
                    CompSel::HeaderLen => vec![USize::ReadFromHeader, USize::ReadHeaderButUseProvided(Some(n))],
                    CompSel::Skip => vec![USize::UseProvided(Some(n))],
                };
                for o in opts {
                    st.eval();
                    let r = sut::lzma_decompress_simple(&z, &Opts::with(o));
                    if !r.verdict.is_ok() || r.out != data {
                        return bad("roundtrip", format!("lzma_decompress({:?}): {} ; {}", o, r.verdict.brief(), first_diff(&r.out, &data)));
                    }
                }
                z_main = z;
            }
            Codec::Lzma2 => {
                st.class("codec:lzma2");
                let enc = sut::lzma2_compress(&data, &c.reader, &io);
                if !enc.verdict.is_ok() {
                    return bad("compress-failed", format!("lzma2_compress: {}", enc.verdict.brief()));
                }
                if enc.consumed != data.len() {
                    return bad("compress-input-not-consumed", format!("lzma2_compress consumed {} of {}", enc.consumed, data.len()));
                }
                let z = enc.out;
                match decode_lzma2(&z, true, true, cap) {
                    Ok(r) => {
                        if r.out != data || r.consumed != z.len() {
                            return bad("nonconformant", format!("strict LZMA2 reference: {} consumed {}/{}", first_diff(&r.out, &data), r.consumed, z.len()));
                        }
                    }
                    Err(e) => return bad("nonconformant", format!("strict LZMA2 reference rejects: {:?}", e)),
                }
                #[cfg(feature = "liblzma")]
                {
                    let lib = crate::ffi_liblzma::raw_lzma2(1 << 24, &z, cap);
                    if !lib.ok() || lib.out != data || lib.consumed != z.len() {
                        return bad("nonconformant", format!("liblzma raw LZMA2: ret={} {}", lib.ret, first_diff(&lib.out, &data)));
                    }
                    st.class("liblzma-second-opinion");
                }
                st.eval();
                let r = sut::lzma2_decompress(&z, &ReaderKind::Slice, &io);
                if !r.verdict.is_ok() || r.out != data {
                    return bad("roundtrip", format!("lzma2_decompress: {} ; {}", r.verdict.brief(), first_diff(&r.out, &data)));
                }
                z_main = z;
            }
            Codec::Xz => {
                st.class("codec:xz");
                let enc = sut::xz_compress(&data, &c.reader, &io);
                if !enc.verdict.is_ok() {
                    return bad("compress-failed", format!("xz_compress: {}", enc.verdict.brief()));
                }
                if enc.consumed != data.len() {
                    return bad("compress-input-not-consumed", format!("xz_compress consumed {} of {}", enc.consumed, data.len()));
                }
                let z = enc.out;
                match parse_strict(&z, cap) {
                    Ok(r) => {
                        if r.out != data {
                            return bad("nonconformant", format!("strict XZ parser output: {}", first_diff(&r.out, &data)));
                        }
                    }
                    Err(e) => return bad("nonconformant", format!("strict XZ parser rejects: {:?} ; file {}", e, hex_prefix(&z, 40))),
                }
                #[cfg(feature = "liblzma")]
                {
                    let lib = crate::ffi_liblzma::xz_stream(&z, cap);
                    if !lib.ok() || lib.out != data || lib.consumed != z.len() {
                        return bad("nonconformant", format!("liblzma stream decoder: ret={} {}", lib.ret, first_diff(&lib.out, &data)));
                    }
                    st.class("liblzma-second-opinion");
                }
                st.eval();
                let r = sut::xz_decompress(&z, &ReaderKind::Slice, &io);
                if !r.verdict.is_ok() || r.out != data {
                    return bad("roundtrip", format!("xz_decompress: {} ; {}", r.verdict.brief(), first_diff(&r.out, &data)));
                }
                z_main = z;
            }
        }
        // What the encoder emits must not depend on how much the sink accepts per
        // write call (io::Write allows short writes): same bytes as into a Vec.
        if data.len() <= 70_000 {
            let h = hash64(&(c.clone(), "sink"));
            let pattern: Vec<usize> = match h % 4 {
                0 => vec![1],
                1 => vec![1 + (h >> 8) as usize % 7],
                2 => vec![1 + (h >> 8) as usize % 12, 1 + (h >> 16) as usize % 300, 4096],
                _ => vec![usize::MAX, 1, usize::MAX, 3],
            };
            let io_short = Io { sink: crate::iowrap::SinkCfg { max_per_write: pattern.clone(), ..Default::default() }, ..Default::default() };
            st.eval();
            st.class("also: sink accepts only part of each write");
            let enc = match c.codec {
                Codec::Lzma(sel) => sut::lzma_compress(
                    &data,
                    match sel {
                        CompSel::HeaderNone => CompOpt::HeaderNone,
                        CompSel::HeaderLen => CompOpt::HeaderSome(n),
                        CompSel::Skip => CompOpt::Skip,
                    },
                    &c.reader,
                    &io_short,
                ),
                Codec::Lzma2 => sut::lzma2_compress(&data, &c.reader, &io_short),
                Codec::Xz => sut::xz_compress(&data, &c.reader, &io_short),
            };
            if enc.verdict.is_panic() {
                return bad("panic", format!("short-writing sink: {}", enc.verdict.brief()));
            }
            if !enc.verdict.is_ok() {
                return bad("compress-failed", format!("into a sink accepting {:?} bytes per write: {}", pattern, enc.verdict.brief()));
            }
            if enc.out != z_main {
                return bad(
                    "short-sink-output-differs",
                    format!(
                        "a sink accepting {:?} bytes per write received {} bytes, a Vec {}: {}",
                        pattern,
                        enc.out.len(),
                        z_main.len(),
                        first_diff(&enc.out, &z_main)
                    ),
                );
            }
        }
        // ErrorKind::Interrupted from the source is retryable by convention: the encoder may
        // report it or retry, but an Ok result must still round-trip to the whole input
        if data.len() <= 70_000 {
            let calls = 1 + (hash64(c) % 5) as usize;
            let io_int = Io { fail_read_at: Some(calls), fail_read_interrupted: true, ..Default::default() };
            let rk = match &c.reader {
                ReaderKind::Chunky { .. } => c.reader.clone(),
                _ => ReaderKind::Chunky { pattern: vec![1 + (hash64(c) >> 8) as usize % 5000], stops: vec![] },
            };
            st.eval();
            st.class("also: source returns Interrupted once");
            let enc = match c.codec {
                Codec::Lzma(sel) => sut::lzma_compress(
                    &data,
                    match sel {
                        CompSel::HeaderNone => CompOpt::HeaderNone,
                        CompSel::HeaderLen => CompOpt::HeaderSome(n),
                        CompSel::Skip => CompOpt::Skip,
                    },
                    &rk,
                    &io_int,
                ),
                Codec::Lzma2 => sut::lzma2_compress(&data, &rk, &io_int),
                Codec::Xz => sut::xz_compress(&data, &rk, &io_int),
            };
            if enc.verdict.is_ok() {
                let back = match c.codec {
                    Codec::Lzma(CompSel::HeaderNone) => sut::lzma_decompress_simple(&enc.out, &Opts::default()),
                    Codec::Lzma(CompSel::HeaderLen) => sut::lzma_decompress_simple(&enc.out, &Opts::default()),
                    Codec::Lzma(CompSel::Skip) => sut::lzma_decompress_simple(&enc.out, &Opts::with(USize::UseProvided(Some(n)))),
                    Codec::Lzma2 => sut::lzma2_decompress(&enc.out, &ReaderKind::Slice, &io),
                    Codec::Xz => sut::xz_decompress(&enc.out, &ReaderKind::Slice, &io),
                };
                if !back.verdict.is_ok() || back.out != data {
                    return bad(
                        "interrupted-read-truncates",
                        format!(
                            "source call #{} returned ErrorKind::Interrupted once; the encoder reported success but its output decodes to {} ({} of {} bytes)",
                            calls,
                            back.verdict.brief(),
                            back.out.len(),
                            data.len()
                        ),
                    );
                }
            } else if enc.verdict.is_panic() {
                return bad("panic", format!("interrupted read: {}", enc.verdict.brief()));
            }
        }
        Judgement::Pass
    }
}

/// xz_compress of n > 4 GiB bytes: total length, index record and footer must
/// follow from the format's arithmetic (the payload itself is not kept).
fn judge_huge(byte: u8, n: u64, st: &mut LocalStats) -> Judgement {
    use crate::refmodel::crc::crc32;
    st.class("len:> 4 GiB (xz index/footer arithmetic only)");
    st.eval();
    let r = sut::xz_compress_huge(byte, n);
    let bad = |msg: String| Judgement::violation("nonconformant".to_string(), format!("xz_compress of {} bytes of {:#04x}: {}", n, byte, msg));
    if !r.verdict.is_ok() {
        return Judgement::violation("compress-failed".to_string(), format!("xz_compress of {} bytes: {}", n, r.verdict.brief()));
    }
    // lzma-rs stores 64 KiB uncompressed chunks: control + 2 size bytes + data each, then the end byte
    let chunks = (n + 65535) / 65536;
    let lzma2_len = n + 3 * chunks + 1;
    let unpadded = 12 + lzma2_len; // block header incl. CRC32 + data, check None
    let bpad = (4 - unpadded % 4) % 4;
    let vli = |mut v: u64| {
        let mut o = Vec::new();
        while v >= 0x80 {
            o.push((v as u8) | 0x80);
            v >>= 7;
        }
        o.push(v as u8);
        o
    };
    let mut index = vec![0u8];
    index.extend(vli(1));
    index.extend(vli(unpadded));
    index.extend(vli(n));
    while index.len() % 4 != 0 {
        index.push(0);
    }
    let c = crc32(&index);
    index.extend_from_slice(&c.to_le_bytes());
    let mut footer_body = Vec::new();
    footer_body.extend_from_slice(&((index.len() / 4 - 1) as u32).to_le_bytes());
    footer_body.extend_from_slice(&[0, 0]);
    let mut footer = crc32(&footer_body).to_le_bytes().to_vec();
    footer.extend_from_slice(&footer_body);
    footer.extend_from_slice(b"YZ");
    let want_total = 12 + unpadded + bpad + index.len() as u64 + 12;
    let mut want_tail: Vec<u8> = vec![0; bpad as usize];
    want_tail.extend_from_slice(&index);
    want_tail.extend_from_slice(&footer);
    if r.total != want_total {
        return bad(format!("file is {} bytes long, the format's arithmetic gives {}", r.total, want_total));
    }
    if r.tail.len() < want_tail.len() || r.tail[r.tail.len() - want_tail.len()..] != want_tail[..] {
        return bad(format!(
            "block padding + index + footer are {} but must be {} (unpadded size {}, uncompressed size {})",
            hex(&r.tail[r.tail.len().saturating_sub(want_tail.len())..]),
            hex(&want_tail),
            unpadded,
            n
        ));
    }
    Judgement::Pass
}

fn has_ff_run(z: &[u8]) -> bool {
    z.windows(2).any(|w| w[0] == 0xFF && w[1] == 0xFF)
}
