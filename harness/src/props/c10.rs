//! C10 — The memory limit is honoured exactly.

use crate::alloc;
use crate::gen::bytes::*;
use crate::gen::program::*;
use crate::iowrap::{fnv, SinkCfg};
use crate::refmodel::enc::{encode_lzma, lzma_header};
use crate::refmodel::model::Props;
use crate::refmodel::program::{interpret, program_text, Op};
use crate::runner::*;
use crate::sut::{self, Io, Opts, ReaderKind, USize, Verdict};
use proptest::prelude::*;
use serde::{Deserialize, Serialize};
use serde_json::json;

#[derive(Clone, Copy, Debug, PartialEq, Eq, Hash, Serialize, Deserialize)]
pub enum Mode {
    OneShotHeader,
    OneShotRaw,
    Stream,
    /// Stream with allow_incomplete on, fed only a prefix of the input
    StreamIncomplete,
}

#[derive(Clone, Debug, Hash, Serialize, Deserialize)]
pub struct Case {
    pub props: Props,
    pub dict: u32,
    pub ops: Vec<Op>,
    pub with_size: bool,
    pub mode: Mode,
    /// the limit
    pub m: u64,
    pub m_class: String,
    /// piece sizes for Mode::Stream
    pub pieces: Vec<usize>,
    /// Mode::StreamIncomplete: how many input bytes are fed
    #[serde(default)]
    pub prefix: usize,
    /// Mode::StreamIncomplete: use the 5-byte header with UseProvided(size)
    #[serde(default)]
    pub h5: bool,
}

#[derive(Clone, Debug)]
pub struct Abs {
    props: Props,
    dict: u32,
    prog: Vec<AbsOp>,
    with_size: bool,
    mode: Mode,
    m_class: u8,
    m_sel: u16,
    chunking: AbsChunking,
    max_out: usize,
}

pub struct C10;

impl C10 {
    /// allow_incomplete: the limit applies to what is actually produced from the prefix
    fn judge_incomplete(&self, c: &Case, st: &mut LocalStats, file: &[u8], expected: &[u8], d: u64) -> Judgement {
        // 5-byte header variant: drop the size field, provide the size through the option
        let h5file: Vec<u8>;
        let (file, mut opts) = if c.h5 {
            let mut f = file[..5].to_vec();
            f.extend_from_slice(&file[13..]);
            h5file = f;
            (&h5file[..], Opts::with(USize::UseProvided(if c.with_size { Some(expected.len() as u64) } else { None })))
        } else {
            (file, Opts::with(USize::ReadFromHeader))
        };
        let input = &file[..c.prefix.min(file.len())];
        // tiny pieces for tiny inputs (header staged over several writes)
        let script: Vec<sut::Call> = if c.h5 && input.len() <= 18 {
            st.class("incomplete: 5-byte header, whole input <= 18 bytes");
            let first = 1 + (c.m as usize % 9).min(input.len().saturating_sub(1));
            vec![sut::Call::Write(first), sut::Call::Write(input.len())]
        } else {
            c.pieces.iter().map(|p| sut::Call::Write(*p)).collect()
        };
        opts.allow_incomplete = true;
        st.evals(2);
        let free = sut::stream_run(input, &opts, &script, &SinkCfg::default(), false);
        if !free.verdict.is_ok() {
            // C15's business; here only a precondition
            return Judgement::Pass;
        }
        let produced = free.out.len() as u64;
        let need = d.min(produced);
        let expect_ok = need <= c.m;
        st.class("mode:StreamIncomplete");
        st.class(&format!("m:{}", c.m_class));
        st.class(if expect_ok { "expect:Ok" } else { "expect:Err" });
        if produced < expected.len() as u64 && c.m >= need && c.m < d.min(expected.len() as u64) {
            st.class("incomplete: limit between produced and announced size");
        }
        st.nontrivial(c);
        opts.memlimit = Some(c.m);
        let lim = sut::stream_run(input, &opts, &script, &SinkCfg::default(), false);
        let what = format!(
            "Stream(allow_incomplete) fed {} of {} bytes (pieces {:?}): unlimited run produces {} bytes (need = min(dict {}, produced) = {}), limit m={} ({}) -> {} with {} bytes ; props={:?} ops=[{}]",
            input.len(),
            file.len(),
            &c.pieces[..c.pieces.len().min(12)],
            produced,
            d,
            need,
            c.m,
            c.m_class,
            lim.verdict.brief(),
            lim.out.len(),
            c.props,
            program_text(&c.ops, 16)
        );
        match (&lim.verdict, expect_ok) {
            (Verdict::Ok, true) => {
                if lim.out != free.out {
                    return Judgement::violation("wrong-output-under-limit", what);
                }
            }
            (Verdict::Err(_), false) => {}
            (Verdict::Ok, false) => return Judgement::violation("limit-ignored", format!("needed window exceeds the limit but decoding succeeds: {}", what)),
            (Verdict::Err(_), true) => return Judgement::violation("limit-too-strict", format!("needed window fits the limit but decoding fails: {}", what)),
            (Verdict::Panic(p), _) => return Judgement::violation(format!("panic:{}", sut::panic_site(p)), format!("{} ; {}", p, what)),
        }
        Judgement::Pass
    }
}

fn eff_dict(mode: Mode, dict: u32) -> u64 {
    match mode {
        Mode::OneShotRaw => dict as u64,
        _ => (dict as u64).max(4096),
    }
}

fn limit_for(class: u8, sel: u16, need: u64, d: u64) -> (u64, &'static str) {
    match class % 14 {
        0 => (0, "0"),
        1 => (need.saturating_sub(1), "need-1"),
        2 => (need, "need"),
        3 => (need + 1, "need+1"),
        4 => (d.saturating_sub(1), "dict-1"),
        5 => (d, "dict"),
        6 => (d + 1, "dict+1"),
        7 => (u64::MAX, "usize::MAX"),
        8 => (pick(sel, 0, need.saturating_sub(1)), "random < need"),
        9 => (pick(sel, need, need.saturating_mul(2).max(need + 10)), "random >= need"),
        // values whose low 32 bits are small: truncation to u32 must not happen
        10 => ((1u64 << 32) | pick(sel, 0, need.saturating_sub(1)), "2^32 + (< need)"),
        11 => (((sel as u64 % 7 + 1) << 32), "k * 2^32"),
        12 => (u64::MAX - 1, "usize::MAX-1"),
        _ => (need / 2, "need/2"),
    }
}

impl Property for C10 {
    type Abs = Abs;
    type Case = Case;
    fn id(&self) -> &'static str {
        "C10"
    }
    fn cases(&self, tier: Tier) -> u32 {
        tier.pick(200_000, 2_000_000)
    }
    fn strategy(&self, tier: Tier) -> BoxedStrategy<Abs> {
        let big = tier.pick(3usize << 20, 3usize << 20);
        let mode = prop_oneof![
            3 => (Just(Mode::OneShotHeader), dict_header()),
            3 => (Just(Mode::OneShotRaw), dict_raw()),
            4 => (Just(Mode::Stream), dict_header()),
            3 => (Just(Mode::StreamIncomplete), dict_header()),
        ];
        (
            props_any(),
            mode,
            prop_oneof![
                30 => abs_program(30, 20),
                20 => abs_program(60, 300),
                // needed window beyond 1 MiB (and beyond 2 MiB)
                1 => (abs_program(6, 6), 4000u16..9000, any::<u16>()).prop_map(|(mut p, k, dsel)| {
                    p.insert(0, AbsOp::Lit(LitKind::Given, k as u8));
                    p.insert(1, AbsOp::Lit(LitKind::Noise, 5));
                    p.insert(2, AbsOp::Run { k, op: Box::new(AbsOp::Match { dclass: 6, dsel, lclass: 6, lsel: 0 }) });
                    p
                }),
            ],
            any::<bool>(),
            0u8..14,
            any::<u16>(),
            abs_chunking(),
        )
            .prop_map(move |(props, (mode, dict), prog, with_size, m_class, m_sel, chunking)| Abs {
                props,
                dict,
                prog,
                with_size,
                mode,
                m_class,
                m_sel,
                chunking,
                max_out: big,
            })
            .boxed()
    }
    fn concretize(&self, a: &Abs) -> Case {
        let d = eff_dict(a.mode, a.dict);
        let ops = concretize(
            &a.prog,
            ConcCfg {
                dict: d,
                max_out: a.max_out,
                max_ops: 20_000,
            },
        );
        let l: u64 = ops.iter().map(|o| op_out_len(o) as u64).sum();
        let need = d.min(l);
        let enc = encode_lzma(a.props, &ops, if a.with_size { None } else { Some(2) });
        let n = 13 + enc.payload.len();
        let sym_ends: Vec<usize> = enc.table.iter().map(|t| 13 + t.consumed as usize).collect();
        // incomplete mode: feed a prefix; the window needed is min(D, bytes produced from it)
        let mut prefix = n;
        let mut need = need;
        if a.mode == Mode::StreamIncomplete {
            prefix = if a.m_sel % 3 == 0 && a.m_class % 2 == 0 {
                // whole (short) input at most 26 bytes: 18 after dropping the 8 size bytes
                pick(a.m_sel.rotate_left(5), 18.min(n as u64), 26.min(n as u64)) as usize
            } else {
                pick(a.m_sel.rotate_left(5), 18.min(n as u64), n as u64) as usize
            };
            let idx = sym_ends.partition_point(|e| *e + 40 <= prefix);
            let produced = if idx == 0 { 0 } else { enc.table[idx - 1].produced };
            need = d.min(produced);
        }
        let (m, m_class) = limit_for(a.m_class, a.m_sel, need, d);
        let pieces = concretize_chunking(&a.chunking, prefix, 13, &sym_ends);
        Case {
            props: a.props,
            dict: a.dict,
            ops,
            with_size: a.with_size,
            mode: a.mode,
            m,
            m_class: m_class.to_string(),
            pieces,
            prefix,
            h5: a.mode == Mode::StreamIncomplete && a.m_sel % 3 == 0,
        }
    }
    fn alloc_failure_is_violation(&self) -> bool {
        true
    }
    fn rule(&self) -> String {
        "proptest generates a valid LZMA stream (all lc/lp/pb, dictionary D from the header (>= 4096) or raw with tiny D, output length L from a symbol program incl. long copies so that L > D occurs), need = min(D, L), a limit m from {0, need-1, need, need+1, D-1, D, D+1, usize::MAX, usize::MAX-1, random below / above need, 2^32 + (value below need), k*2^32, need/2}, and a decoder {lzma_decompress_with_options, raw::LzmaDecoder, Stream under a generated chunking}. Oracle: need <= m => same verdict (Ok) and byte-identical output as the run without a limit; need > m => Err. Secondary: with a non-allocating (hashing) sink the peak growth of live heap during the decode (counting allocator) stays below fixed(lc,lp) + 4*min(m, need) + 64 KiB. Non-trivial = m within +-1 of need or of D, or >= 2^32; distinct = SipHash of the concrete case.".into()
    }
    fn required_classes(&self, tier: Tier) -> Vec<(&'static str, u64)> {
        let k = tier.pick(1, 10);
        vec![
            ("m:need-1", 1000 * k),
            ("m:need", 1000 * k),
            ("m:need+1", 1000 * k),
            ("m:dict-1", 1000 * k),
            ("m:2^32 + (< need)", 1000 * k),
            ("mode:Stream", 5000 * k),
            ("mode:OneShotRaw", 5000 * k),
            ("L>D (window wraps)", 3000 * k),
            ("expect:Err", 5000 * k),
            ("expect:Ok", 5000 * k),
            ("window grows inside a copy past the limit", 300 * k),
            ("mode:StreamIncomplete", 5000 * k),
            ("needed window > 1 MiB", 300 * k),
            ("incomplete: 5-byte header, whole input <= 18 bytes", 200 * k),
            ("incomplete: limit between produced and announced size", 300 * k),
        ]
    }

    fn judge(&self, c: &mut Case, st: &mut LocalStats) -> Judgement {
        let d = eff_dict(c.mode, c.dict);
        let expected = match interpret(&c.ops, d) {
            Ok(o) => o,
            Err(e) => return Judgement::HarnessBug(format!("{:?}", e)),
        };
        let l = expected.len() as u64;
        let need = d.min(l);
        let enc = encode_lzma(c.props, &c.ops, if c.with_size { None } else { Some(2) });
        let size = if c.with_size { Some(l) } else { None };
        let mut file = lzma_header(c.props, c.dict, size);
        file.extend_from_slice(&enc.payload);
        if c.mode == Mode::StreamIncomplete {
            return self.judge_incomplete(c, st, &file, &expected, d);
        }
        let expect_ok = need <= c.m;
        // classification
        st.class(&format!("m:{}", c.m_class));
        st.class(&format!("mode:{:?}", c.mode));
        st.class(if expect_ok { "expect:Ok" } else { "expect:Err" });
        if l > d {
            st.class("L>D (window wraps)");
        }
        if need > (1 << 20) {
            st.class("needed window > 1 MiB");
        }
        // does the window first exceed m during a copy (not on a literal)?
        if !expect_ok {
            let mut p = 0u64;
            for op in &c.ops {
                let n = op_out_len(op) as u64;
                if p <= c.m && p + n > c.m {
                    if op.is_copy() {
                        st.class("window grows inside a copy past the limit");
                    }
                    break;
                }
                p += n;
            }
        }
        let near = |a: u64, b: u64| a.abs_diff(b) <= 1;
        if near(c.m, need) || near(c.m, d) || c.m >= (1 << 32) {
            st.nontrivial(c);
            st.sample(&format!("{:?} m={}", c.mode, c.m_class), || {
                json!({"props": c.props, "dict": c.dict, "L": l, "need": need, "m": c.m, "mode": format!("{:?}", c.mode), "program": program_text(&c.ops, 16)})
            });
        }
        let sink = SinkCfg {
            discard: true,
            ..Default::default()
        };
        let io = Io {
            sink: sink.clone(),
            fail_read_at: None,
            fail_read_sticky: false,
            ..Default::default()
        };
        st.eval();
        let mut opts = Opts::with(USize::ReadFromHeader);
        opts.memlimit = Some(c.m);
        let script: Vec<sut::Call> = c.pieces.iter().map(|p| sut::Call::Write(*p)).collect();
        let ((verdict, total, hash), mem) = alloc::measure(|| match c.mode {
            Mode::OneShotHeader => {
                let r = sut::lzma_decompress(&file, &opts, &ReaderKind::Slice, &io);
                (r.verdict, r.sink.total, r.sink.hash)
            }
            Mode::OneShotRaw => {
                let r = sut::raw_lzma(c.props, c.dict, size, Some(c.m), &enc.payload, &ReaderKind::Slice, &io);
                (r.verdict, r.sink.total, r.sink.hash)
            }
            Mode::Stream | Mode::StreamIncomplete => {
                let r = sut::stream_run_ext(&file, &opts, &script, &sink, false, false);
                (r.verdict, r.sink.total, r.sink.hash)
            }
        });
        let what = format!(
            "props={:?} declared dict={} (effective {}) L={} need={} limit m={} ({}) mode={:?} ops=[{}]",
            c.props,
            c.dict,
            d,
            l,
            need,
            c.m,
            c.m_class,
            c.mode,
            program_text(&c.ops, 24)
        );
        match (&verdict, expect_ok) {
            (Verdict::Ok, true) => {
                if total != l || hash != fnv(&expected) {
                    return Judgement::violation("wrong-output-under-limit", format!("limit >= need but output differs: {} ; {} bytes", what, total));
                }
            }
            (Verdict::Err(_), false) => {}
            (Verdict::Ok, false) => {
                return Judgement::violation("limit-ignored", format!("needed window exceeds the limit but decoding succeeds: {}", what));
            }
            (Verdict::Err(e), true) => {
                return Judgement::violation("limit-too-strict", format!("needed window fits the limit but decoding fails ({}): {}", sut::trunc(e, 120), what));
            }
            (Verdict::Panic(p), _) => {
                return Judgement::violation(format!("panic:{}", sut::panic_site(p)), format!("{} ; {}", p, what));
            }
        }
        // heap bound
        let fixed = (0x300usize << (c.props.lc + c.props.lp)) * 2 * 2 + (64 << 10);
        let window = c.m.min(need).min(1 << 40) as usize;
        let bound = fixed + 4 * window + (64 << 10);
        st.max("max_peak_heap_growth", mem.peak_growth as u64);
        if mem.peak_growth > bound {
            return Judgement::violation(
                "heap-over-limit",
                format!("peak heap growth {} bytes > bound {} (fixed {} + 4*min(m,need)={} + 64KiB): {}", mem.peak_growth, bound, fixed, window, what),
            );
        }
        Judgement::Pass
    }
}
