//! C02 — LZMA2 decoding is exact for every well-formed chunk sequence.

use super::common::*;
use crate::gen::lzma2::*;
use crate::refmodel::lzma2::{decode_lzma2, write_lzma2, Chunk, EncodedLzma2, Reset};
use crate::refmodel::program::{program_text, Interp, Op};
use crate::refmodel::xz::{write_xz, XzBlock, XzSpec};
use crate::runner::*;
use crate::sut::{self, Io, ReaderKind};
use proptest::prelude::*;
use serde::{Deserialize, Serialize};
use serde_json::json;

#[derive(Clone, Debug, Hash, Serialize, Deserialize)]
pub struct Case {
    pub chunks: Vec<Chunk>,
    /// check id used for the .xz wrapping (0, 1, 4)
    pub xz_check: u8,
}

pub struct C02;

/// Interpret a chunk sequence directly (no coding): the format's definition.
pub fn interpret_chunks(chunks: &[Chunk]) -> Result<Vec<u8>, String> {
    let mut it = Interp::new(u64::MAX);
    for (i, ch) in chunks.iter().enumerate() {
        match ch {
            Chunk::Raw { reset_dict, data } => {
                if *reset_dict {
                    it.reset_dict();
                }
                it.append_raw(data);
            }
            Chunk::Lzma { reset, ops, .. } => {
                if *reset == Reset::All {
                    it.reset_dict();
                }
                if *reset != Reset::None {
                    it.reset_state();
                }
                for op in ops {
                    it.apply(op).map_err(|e| format!("chunk {}: {:?}", i, e))?;
                }
            }
        }
    }
    Ok(it.out)
}

pub fn chunks_text(chunks: &[Chunk], max: usize) -> String {
    let mut s = Vec::new();
    for ch in chunks.iter().take(max) {
        s.push(match ch {
            Chunk::Raw { reset_dict, data } => {
                format!("Raw(reset_dict={}, {}B)", reset_dict, data.len())
            }
            Chunk::Lzma { reset, props, ops } => format!(
                "Lzma({:?}, lc{}lp{}pb{}, [{}])",
                reset,
                props.lc,
                props.lp,
                props.pb,
                program_text(ops, 10)
            ),
        });
    }
    if chunks.len() > max {
        s.push(format!("…(+{} chunks)", chunks.len() - max));
    }
    s.join(" ; ")
}

pub struct L2Shape {
    pub nontrivial: bool,
}

pub fn classify_chunks(chunks: &[Chunk], enc: &EncodedLzma2, st: &mut LocalStats) -> L2Shape {
    let mut n_comp = 0;
    let mut prev_compressed = false;
    let mut prev_props = None;
    let mut since_reset: usize = 0; // bytes since last dict reset before this chunk
    let mut raw_since_reset = false;
    for (i, ch) in chunks.iter().enumerate() {
        let lay = &enc.layout[i];
        match ch {
            Chunk::Raw { reset_dict, data } => {
                st.class(if *reset_dict { "chunk:raw+dictreset(0x01)" } else { "chunk:raw(0x02)" });
                if *reset_dict {
                    if i > 0 {
                        st.class("dict-reset:mid-stream");
                    }
                    since_reset = 0;
                    raw_since_reset = false;
                }
                if data.len() == 1 {
                    st.class("size:raw=1");
                }
                if data.len() == 65536 {
                    st.class("size:raw=65536");
                }
                since_reset += data.len();
                raw_since_reset = true;
                prev_compressed = false;
            }
            Chunk::Lzma { reset, props, ops } => {
                n_comp += 1;
                st.class(match reset {
                    Reset::None => "chunk:lzma(no reset)",
                    Reset::State => "chunk:lzma+state",
                    Reset::StateProps => "chunk:lzma+state+props",
                    Reset::All => "chunk:lzma+all",
                });
                if *reset == Reset::All {
                    if i > 0 {
                        st.class("dict-reset:mid-stream");
                    }
                    since_reset = 0;
                    raw_since_reset = false;
                }
                if *reset == Reset::None && prev_compressed {
                    st.class("inherit:probs+reps after compressed chunk");
                    if matches!(ops.first(), Some(Op::Rep { .. }) | Some(Op::ShortRep)) {
                        st.class("inherit:chunk starts with rep");
                    }
                }
                if *reset == Reset::None && !prev_compressed && i > 0 {
                    st.class("inherit:state kept across uncompressed chunk");
                }
                if (*reset as u8) >= 1 && matches!(ops.first(), Some(Op::Rep { .. }) | Some(Op::ShortRep)) {
                    st.class("reset:chunk starts with rep after state reset");
                }
                if (*reset as u8) >= 2 {
                    if let Some(pp) = prev_props {
                        let pp: crate::refmodel::model::Props = pp;
                        if pp.lc + pp.lp != props.lc + props.lp {
                            st.class("props-change:lc+lp differs");
                        } else if pp != *props {
                            st.class("props-change:same lc+lp");
                        }
                    }
                    prev_props = Some(*props);
                }
                // copies reaching before this chunk
                let mut produced_in_chunk: u64 = 0;
                let mut reps = [0u32; 4];
                for op in ops {
                    let (d, l): (u64, u64) = match *op {
                        Op::Lit(_) => {
                            produced_in_chunk += 1;
                            continue;
                        }
                        Op::Match { dist, len } => {
                            reps = [dist - 1, reps[0], reps[1], reps[2]];
                            (dist as u64, len as u64)
                        }
                        Op::ShortRep => (u64::MAX, 1),
                        Op::Rep { idx, len } => {
                            let _ = idx;
                            (u64::MAX, len as u64)
                        }
                    };
                    if d != u64::MAX && d > produced_in_chunk {
                        st.class("copy:crosses chunk boundary");
                        if raw_since_reset {
                            st.class("copy:may reach into uncompressed chunk");
                        }
                    }
                    produced_in_chunk += l;
                }
                if lay.unpacked > 65536 {
                    st.class("size:unpacked>64KiB");
                }
                if lay.unpacked % 65536 == 0 {
                    st.class("size:unpacked exact multiple of 64KiB");
                    if (lay.unpacked / 65536) % 2 == 0 {
                        st.class("size:unpacked exact multiple of 128KiB");
                    }
                }
                if lay.unpacked >= (1 << 21) - 273 {
                    st.class("size:unpacked~2MiB");
                }
                if lay.unpacked == 1 {
                    st.class("size:unpacked=1");
                }
                if lay.payload_len > 60000 {
                    st.class("size:packed>60000");
                }
                since_reset += lay.unpacked;
                prev_compressed = true;
            }
        }
    }
    let _ = since_reset;
    if chunks.len() >= 2 {
        st.class("chunks>=2");
    }
    if chunks.len() > 255 {
        st.class("chunks>255");
    }
    if chunks.len() > 65535 {
        st.class("chunks>65535");
    }
    L2Shape {
        nontrivial: chunks.len() >= 2 && n_comp >= 1,
    }
}

/// Wrap one LZMA2 stream into a single-block .xz
pub fn xz_wrap(payload: &[u8], content: &[u8], check: u8) -> Vec<u8> {
    write_xz(
        &XzSpec {
            check,
            blocks: vec![XzBlock {
                has_packed: false,
                has_unpacked: false,
                extra_pad4: 0,
                dict_prop: 40,
                payload: payload.to_vec(),
                content: content.to_vec(),
            }],
        },
        None,
    )
    .bytes
}

/// Reference agreement (writer / interpreter / reference decoder / liblzma).
pub fn reference_check(chunks: &[Chunk], st: &mut LocalStats) -> Result<(EncodedLzma2, Vec<u8>), String> {
    let enc = write_lzma2(chunks, false).map_err(|e| format!("generator produced illegal chunks: {}", e))?;
    let expected = interpret_chunks(chunks).map_err(|e| format!("generated chunk program invalid: {}", e))?;
    if enc.output != expected {
        return Err("lzma2 writer history != interpreter".into());
    }
    match decode_lzma2(&enc.bytes, true, true, expected.len() + (1 << 20)) {
        Ok(r) => {
            if r.out != expected || r.consumed != enc.bytes.len() {
                return Err(format!(
                    "reference LZMA2 decoder disagrees: {} consumed {}/{}",
                    first_diff(&r.out, &expected),
                    r.consumed,
                    enc.bytes.len()
                ));
            }
        }
        Err(e) => return Err(format!("reference LZMA2 decoder rejects: {:?}", e)),
    }
    #[cfg(feature = "liblzma")]
    {
        let lib = crate::ffi_liblzma::raw_lzma2(1 << 27, &enc.bytes, expected.len() + (1 << 20));
        if !lib.ok() || lib.out != expected || lib.consumed != enc.bytes.len() {
            return Err(format!(
                "liblzma raw LZMA2 disagrees with reference model: ret={} consumed={}/{} {} [{}]",
                lib.ret,
                lib.consumed,
                enc.bytes.len(),
                first_diff(&lib.out, &expected),
                chunks_text(chunks, 6)
            ));
        }
        st.class("liblzma-second-opinion");
    }
    let _ = st;
    Ok((enc, expected))
}

impl Property for C02 {
    type Abs = (Vec<AbsChunk>, u8, usize);
    type Case = Case;
    fn id(&self) -> &'static str {
        "C02"
    }
    fn cases(&self, tier: Tier) -> u32 {
        tier.pick(60_000, 600_000)
    }
    fn strategy(&self, tier: Tier) -> BoxedStrategy<Self::Abs> {
        let s = match tier {
            Tier::Quick => prop_oneof![
                10 => (abs_chunks(6, 30, 30, false), Just(200_000usize)),
                1 => (abs_chunks(4, 60, 100, true), Just(3usize << 20)),
                1 => (many_tiny_chunks(), Just(200_000usize)),
            ]
            .boxed(),
            Tier::Thorough => prop_oneof![
                10 => (abs_chunks(8, 40, 40, false), Just(300_000usize)),
                2 => (abs_chunks(6, 200, 300, true), Just(5usize << 20)),
                1 => (many_tiny_chunks(), Just(300_000usize)),
            ]
            .boxed(),
        };
        (s, prop::sample::select(vec![0u8, 1, 4]))
            .prop_map(|((c, max), chk)| (c, chk, max))
            .boxed()
    }
    fn concretize(&self, a: &Self::Abs) -> Case {
        Case {
            chunks: concretize_chunks(
                &a.0,
                L2Cfg {
                    max_total: a.2,
                    max_chunk_ops: 90_000,
                },
            ),
            xz_check: a.1,
        }
    }
    fn fixed_cases(&self, tier: Tier) -> Vec<Case> {
        let mut v = Vec::new();
        // (1) more than 65536 chunks in one stream
        {
            let mut chunks = Vec::with_capacity(70_000);
            for i in 0..70_000u32 {
                chunks.push(Chunk::Raw { reset_dict: i == 0, data: vec![(i % 251) as u8] });
            }
            v.push(Case { chunks, xz_check: 1 });
        }
        // (2) a long history in one dictionary epoch: 10 (thorough: 20) compressed chunks of
        // about 2 MiB each, with copies reaching back up to the whole history
        {
            use crate::refmodel::model::Props;
            let n_chunks = tier.pick(10, 20);
            let mut chunks = Vec::new();
            let mut produced: u64 = 0;
            let mut x = 0x0123_4567_89AB_CDEFu64;
            for ci in 0..n_chunks {
                let mut ops: Vec<Op> = Vec::new();
                let mut here: u64 = 0;
                for _ in 0..200 {
                    x ^= x << 13;
                    x ^= x >> 7;
                    x ^= x << 17;
                    ops.push(Op::Lit((x >> 40) as u8));
                    here += 1;
                }
                while here + 273 <= (1 << 21) - 300 {
                    x ^= x << 13;
                    x ^= x >> 7;
                    x ^= x << 17;
                    let total = produced + here;
                    // far, medium and near distances
                    let dist = match x % 4 {
                        0 => 1 + (x >> 8) % total,
                        1 => total - (x >> 8) % total.min(4096),
                        2 => 1 + (x >> 8) % total.min(1 << 16),
                        _ => (total / 2).max(1),
                    };
                    ops.push(Op::Match { dist: dist.min(0xFFFF_FFF0) as u32, len: 273 });
                    here += 273;
                    if x % 11 == 0 {
                        ops.push(Op::Lit((x >> 33) as u8));
                        here += 1;
                    }
                }
                produced += here;
                chunks.push(Chunk::Lzma {
                    reset: if ci == 0 { Reset::All } else if ci % 3 == 0 { Reset::StateProps } else { Reset::None },
                    props: Props::new(3, 0, 2),
                    ops,
                });
            }
            v.push(Case { chunks, xz_check: 4 });
        }
        v
    }
    fn rule(&self) -> String {
        "proptest generates abstract chunk sequences (uncompressed chunks 0x01/0x02, LZMA chunks with every reset class, property changes with lc+lp<=4, symbol programs whose copies may reach any byte since the last dictionary reset, chunks steered to the 1-byte / 64 KiB / 2 MiB / 64 KiB-packed extremes); sequencing rules and limits are enforced by construction. The stream is serialised by the reference writer and decoded by lzma2_decompress, raw::Lzma2Decoder and (wrapped in one .xz block) xz_decompress; expected bytes = direct interpretation of the chunk programs (cross-checked against the reference LZMA2 decoder and liblzma's raw LZMA2 decoder). Non-trivial = at least 2 chunks of which at least 1 is compressed; distinct = SipHash of the concrete chunk sequence.".into()
    }
    fn assumptions(&self) -> Vec<String> {
        vec!["LZMA state (probabilities, reps) is retained across uncompressed chunks, as in LZMA SDK / liblzma / xz-embedded; liblzma is consulted on every case, so a wrong belief would show up as a harness problem (exit 2), not as a violation".into()]
    }
    fn required_classes(&self, tier: Tier) -> Vec<(&'static str, u64)> {
        let m = tier.pick(1, 10);
        vec![
            ("inherit:probs+reps after compressed chunk", 300 * m),
            ("inherit:chunk starts with rep", 50 * m),
            ("inherit:state kept across uncompressed chunk", 50 * m),
            ("props-change:lc+lp differs", 300 * m),
            ("copy:crosses chunk boundary", 300 * m),
            ("copy:may reach into uncompressed chunk", 100 * m),
            ("dict-reset:mid-stream", 300 * m),
            ("size:unpacked>64KiB", 50 * m),
            ("size:unpacked~2MiB", 3 * m),
            ("size:packed>60000", 3 * m),
            ("size:raw=65536", 10 * m),
            ("size:raw=1", 30 * m),
            ("chunks>255", 500 * m),
            ("chunks>65535", 1),
            ("history > 16 MiB in one dictionary epoch", 1),
            ("size:unpacked exact multiple of 128KiB", 100 * m),
        ]
    }

    fn judge(&self, c: &mut Case, st: &mut LocalStats) -> Judgement {
        if c.chunks.is_empty() {
            return Judgement::Pass;
        }
        let (enc, expected) = match reference_check(&c.chunks, st) {
            Ok(x) => x,
            Err(e) => return Judgement::HarnessBug(e),
        };
        let sh = classify_chunks(&c.chunks, &enc, st);
        if sh.nontrivial {
            st.nontrivial(c);
            st.sample("multi-chunk", || {
                json!({"chunks": chunks_text(&c.chunks, 6), "stream": hex_prefix(&enc.bytes, 40), "output_len": expected.len()})
            });
        }
        let fail = |what: &str, r: &sut::Run| -> Judgement {
            let sig = if r.verdict.is_ok() { "wrong-bytes" } else { "reject-valid" };
            Judgement::violation(
                format!("{}:{}", what, sig),
                format!(
                    "{} on well-formed LZMA2 stream [{}]: verdict {} ; {}",
                    what,
                    chunks_text(&c.chunks, 8),
                    r.verdict.brief(),
                    first_diff(&r.out, &expected)
                ),
            )
        };
        st.eval();
        let r = sut::lzma2_decompress(&enc.bytes, &ReaderKind::Slice, &Io::default());
        if !r.verdict.is_ok() || r.out != expected {
            return fail("lzma2_decompress", &r);
        }
        // the same stream through a fragmenting reader into a short-writing sink
        let h = hash64(&c.chunks);
        let frag = ReaderKind::Chunky { pattern: vec![1 + (h % 11) as usize, 1 + ((h >> 9) % 300) as usize], stops: vec![] };
        let short = Io {
            sink: crate::iowrap::SinkCfg { max_per_write: vec![1 + ((h >> 20) % 7) as usize, 4096], ..Default::default() },
            ..Default::default()
        };
        if enc.output.len() > (16 << 20) {
            st.class("history > 16 MiB in one dictionary epoch");
        }
        if expected.len() <= 200_000 {
            st.eval();
            st.class("also: fragmenting reader + short-writing sink");
            let r = sut::lzma2_decompress(&enc.bytes, &frag, &short);
            if !r.verdict.is_ok() || r.out != expected {
                return fail("lzma2_decompress(fragmenting reader, short-writing sink)", &r);
            }
        }
        st.eval();
        let r = sut::raw_lzma2(&enc.bytes, &ReaderKind::Slice, &Io::default());
        if !r.verdict.is_ok() || r.out != expected {
            return fail("raw::Lzma2Decoder", &r);
        }
        // a re-used decoder object: a failing decode of a prefix of this stream, reset(), then the stream
        if enc.bytes.len() <= 300_000 {
            let cut = 1 + (h as usize >> 7) % enc.bytes.len().max(2).saturating_sub(1);
            st.eval();
            st.class("also: raw decoder re-used after a failed decode + reset");
            let r = sut::raw_lzma2_reused(&enc.bytes[..cut.min(enc.bytes.len())], &enc.bytes, &ReaderKind::Slice, &Io::default());
            if !r.verdict.is_ok() || r.out != expected {
                return fail("raw::Lzma2Decoder (re-used after a truncated decode and reset)", &r);
            }
        }
        st.eval();
        let xz = xz_wrap(&enc.bytes, &expected, c.xz_check);
        let r = sut::xz_decompress(&xz, &ReaderKind::Slice, &Io::default());
        if !r.verdict.is_ok() || r.out != expected {
            return fail("xz_decompress(one block)", &r);
        }
        Judgement::Pass
    }
}
