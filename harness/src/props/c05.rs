//! C05 — Streaming decoder equals one-shot decoder under every chunking.

use super::common::*;
use crate::gen::bytes::*;
use crate::gen::program::pick;
use crate::runner::*;
use crate::sut::{self, Opts, USize, Verdict};
use proptest::prelude::*;
use serde::{Deserialize, Serialize};
use serde_json::json;

#[derive(Clone, Debug, PartialEq, Eq, Hash, Serialize, Deserialize)]
pub struct Case {
    #[serde(with = "hexser")]
    pub input: Vec<u8>,
    pub opts: Opts,
    /// sizes of the successive write() pieces (sum == input length)
    pub pieces: Vec<usize>,
    /// classification aids (not used by the oracle)
    pub header_len: usize,
    pub sym_ends: Vec<usize>,
    pub first_mut_at: usize,
    pub kind: String,
}

#[derive(Clone, Debug)]
pub struct Abs {
    pub file: AbsLzmaFile,
    pub random: Option<Vec<u8>>,
    pub muts: Vec<AbsMut>,
    pub continuation: Option<AbsLzmaFile>,
    pub osel: u8,
    pub nsel: u8,
    pub nraw: u16,
    pub chunking: AbsChunking,
    pub zeros: u8,
}

pub struct C05;

pub fn choose_opts(osel: u8, nsel: u8, nraw: u16, h13: bool, true_len: u64) -> Opts {
    let n = match nsel % 8 {
        0 | 1 | 2 => true_len,
        3 => true_len + 1,
        4 => true_len.saturating_sub(1),
        5 => 0,
        6 => 1 << 40,
        _ => pick(nraw, 0, true_len + 2),
    };
    // mostly options that match the header layout, sometimes not
    let u = match (h13, osel % 10) {
        (true, 0..=3) => USize::ReadFromHeader,
        (true, 4 | 5) => USize::ReadHeaderButUseProvided(None),
        (true, 6 | 7) => USize::ReadHeaderButUseProvided(Some(n)),
        (true, 8) => USize::UseProvided(Some(n)),
        (true, _) => USize::UseProvided(None),
        (false, 0..=3) => USize::UseProvided(Some(n)),
        (false, 4..=6) => USize::UseProvided(None),
        (false, 7) => USize::ReadFromHeader,
        (false, 8) => USize::ReadHeaderButUseProvided(Some(n)),
        (false, _) => USize::ReadHeaderButUseProvided(None),
    };
    Opts::with(u)
}

pub fn abs_strategy(max_ops: usize, max_run: u16, max_out: usize) -> BoxedStrategy<Abs> {
    (
        abs_lzma_file(max_ops, max_run, max_out),
        prop_oneof![12 => Just(None), 1 => random_bytes(200).prop_map(Some)],
        abs_muts(3),
        prop_oneof![6 => Just(None), 1 => abs_lzma_file(8, 4, 2000).prop_map(Some)],
        any::<u8>(),
        any::<u8>(),
        any::<u16>(),
        abs_chunking(),
        prop_oneof![14 => Just(0u8), 1 => 1u8..40],
    )
        .prop_map(|(file, random, muts, continuation, osel, nsel, nraw, chunking, zeros)| Abs {
            file,
            random,
            muts,
            continuation,
            osel,
            nsel,
            nraw,
            chunking,
            zeros,
        })
        .boxed()
}

pub fn concretize_abs(a: &Abs) -> Case {
    let f = build_lzma_file(&a.file);
    let (mut input, mut first_mut, kind) = if let Some(r) = &a.random {
        (r.clone(), 0usize, "random".to_string())
    } else {
        let (v, first) = apply_muts(&f.bytes, &a.muts);
        let kind = if a.muts.is_empty() { "valid" } else { "mutated" };
        (v, first, kind.to_string())
    };
    let mut kind = kind;
    if let Some(c) = &a.continuation {
        // bytes that look like more stream: a second complete payload
        let g = build_lzma_file(c);
        first_mut = first_mut.min(input.len());
        input.extend_from_slice(&g.bytes[g.header_len..]);
        kind.push_str("+continuation");
    } else if a.zeros > 0 {
        // zero bytes after the stream: after an end marker they decode as more
        // symbols (code stays 0) if the decoder does not stop at the marker
        first_mut = first_mut.min(input.len());
        input.extend(std::iter::repeat(0u8).take(a.zeros as usize));
        kind.push_str("+zeros");
    }
    let opts = choose_opts(a.osel, a.nsel, a.nraw, a.file.h13, f.output.len() as u64);
    let pieces = concretize_chunking(&a.chunking, input.len(), f.header_len, &f.sym_ends);
    Case {
        input,
        opts,
        pieces,
        header_len: f.header_len,
        sym_ends: f.sym_ends,
        first_mut_at: first_mut,
        kind,
    }
}

/// (number of cuts strictly inside a symbol or header/preamble, max bytes of a cut symbol)
pub fn cut_profile(c: &Case) -> (usize, usize, usize) {
    let mut inside = 0;
    let mut hdr = 0;
    let mut max_sym = 0usize;
    let mut off = 0usize;
    let n = c.input.len();
    for p in &c.pieces[..c.pieces.len().saturating_sub(1)] {
        off += p;
        if off == 0 || off >= n {
            continue;
        }
        if off < c.header_len + 5 {
            hdr += 1;
            continue;
        }
        if off >= c.first_mut_at {
            continue;
        }
        // symbol containing offset `off`: first end > off ... inside if no end == off
        match c.sym_ends.binary_search(&off) {
            Ok(_) => {}
            Err(i) => {
                if i < c.sym_ends.len() {
                    inside += 1;
                    let start = if i == 0 { c.header_len + 5 } else { c.sym_ends[i - 1] };
                    max_sym = max_sym.max(c.sym_ends[i] - start);
                }
            }
        }
    }
    (inside, hdr, max_sym)
}

impl Property for C05 {
    type Abs = Abs;
    type Case = Case;
    fn id(&self) -> &'static str {
        "C05"
    }
    fn cases(&self, tier: Tier) -> u32 {
        tier.pick(200_000, 2_000_000)
    }
    fn strategy(&self, tier: Tier) -> BoxedStrategy<Abs> {
        match tier {
            Tier::Quick => prop_oneof![
                8 => abs_strategy(40, 30, 20_000),
                2 => abs_strategy(300, 200, 100_000),
            ]
            .boxed(),
            Tier::Thorough => prop_oneof![
                8 => abs_strategy(60, 40, 30_000),
                3 => abs_strategy(500, 400, 300_000),
            ]
            .boxed(),
        }
    }
    fn concretize(&self, a: &Abs) -> Case {
        concretize_abs(a)
    }
    fn fixed_cases(&self, _tier: Tier) -> Vec<Case> {
        super::worst::worst_case_stream_cases()
    }
    fn rule(&self) -> String {
        "proptest generates an input byte string (a valid .lzma stream of any shape from the symbol-program generator; structured mutations of it: bit flips, byte sets, field extremes, truncation, duplication, deletion, appended bytes; a valid stream followed by a second range-coded payload; uniformly random strings) x decode option (ReadFromHeader / ReadHeaderButUseProvided(None|Some n) / UseProvided(None|Some n), n in {true, +-1, 0, 2^40, random}) x a composition of the input into write() pieces (all-at-once, 1-byte, uniform k, random incl. empty pieces, cuts targeted at header offsets and at symbol boundaries -1/0/+1 taken from the encoder's consumption table). Oracle: verdict of Stream (write* then finish) == verdict of lzma_decompress_with_options on the concatenation, and on Ok the outputs are byte-identical. A fixed batch adds 'worst-case symbol' streams (probabilities trained so that one symbol needs ~18 input bytes) cut at every offset. Non-trivial = at least 2 write calls and at least one cut strictly inside a symbol's bytes or inside header/preamble; distinct = SipHash of (input, options, pieces).".into()
    }
    fn required_classes(&self, tier: Tier) -> Vec<(&'static str, u64)> {
        let m = tier.pick(1, 10);
        vec![
            ("input:valid", 4000 * m),
            ("input:mutated", 4000 * m),
            ("input:random", 500 * m),
            ("input:+continuation", 1000 * m),
            ("cut:inside symbol", 5000 * m),
            ("cut:inside header/preamble", 5000 * m),
            ("cut symbol needs >=4 bytes", 100 * m),
            ("cut symbol needs >=10 bytes", 5),
            ("cut symbol needs >=16 bytes", 5),
            ("opt:ReadFromHeader", 2000 * m),
            ("opt:ReadHeaderButUseProvided", 2000 * m),
            ("opt:UseProvided", 2000 * m),
            ("verdict:Ok", 3000 * m),
            ("verdict:Err", 3000 * m),
            ("write refused after completion (Ok(0))", 50 * m),
        ]
    }

    fn judge(&self, c: &mut Case, st: &mut LocalStats) -> Judgement {
        st.evals(2);
        let one = sut::lzma_decompress_simple(&c.input, &c.opts);
        let s = sut::stream_chunked(&c.input, &c.opts, &c.pieces);
        // classification
        for k in c.kind.split('+') {
            st.class(&format!("input:{}{}", if k == "continuation" { "+" } else { "" }, k));
        }
        st.class(match c.opts.usize_ {
            USize::ReadFromHeader => "opt:ReadFromHeader",
            USize::ReadHeaderButUseProvided(_) => "opt:ReadHeaderButUseProvided",
            USize::UseProvided(_) => "opt:UseProvided",
        });
        let (inside, hdr, max_sym) = cut_profile(c);
        st.class_n("cut:inside symbol", inside as u64);
        st.class_n("cut:inside header/preamble", hdr as u64);
        if max_sym >= 4 {
            st.class("cut symbol needs >=4 bytes");
        }
        if max_sym >= 10 {
            st.class("cut symbol needs >=10 bytes");
        }
        if max_sym >= 16 {
            st.class("cut symbol needs >=16 bytes");
        }
        st.max("max bytes of a symbol that was cut", max_sym as u64);
        st.class(&format!("verdict:{}", one.verdict.kind()));
        if s.refused_at.is_some() {
            st.class("write refused after completion (Ok(0))");
        }
        if s.n_write_calls >= 2 && (inside > 0 || hdr > 0) {
            st.nontrivial(c);
            st.sample(&format!("{} / {}", c.kind, one.verdict.kind()), || {
                json!({"input": hex_prefix(&c.input, 40), "input_len": c.input.len(), "opts": format!("{:?}", c.opts),
                       "pieces": c.pieces.iter().take(24).collect::<Vec<_>>(), "one_shot": one.verdict.brief(), "stream": s.verdict.brief()})
            });
        }
        if c.input.is_empty() {
            // the documented exception
            if !s.verdict.is_ok() || !s.out.is_empty() {
                return Judgement::violation("empty-input", format!("zero total input: stream gives {}", s.verdict.brief()));
            }
            return Judgement::Pass;
        }
        let desc = |what: &str| -> String {
            format!(
                "{}: input({}B, {})={} opts={:?} pieces={:?} : one-shot {} ({}B out) vs stream {} ({}B out; finish={}; first write error at step {:?})",
                what,
                c.input.len(),
                c.kind,
                hex_prefix(&c.input, 48),
                c.opts,
                &c.pieces[..c.pieces.len().min(40)],
                one.verdict.brief(),
                one.out.len(),
                s.verdict.brief(),
                s.out.len(),
                s.finish.brief(),
                s.first_err_step
            )
        };
        match (&one.verdict, &s.verdict) {
            (Verdict::Ok, Verdict::Ok) => {
                if one.out != s.out {
                    return Judgement::violation(
                        "output-differs",
                        format!("{} ; {}", desc("both succeed, outputs differ"), first_diff(&s.out, &one.out)),
                    );
                }
            }
            (Verdict::Err(_), Verdict::Err(_)) => {}
            (Verdict::Panic(_), Verdict::Panic(_)) => {
                st.class("both panic (left to C07)");
            }
            (Verdict::Ok, _) => return Judgement::violation("stream-rejects", desc("one-shot succeeds, stream does not")),
            (Verdict::Err(_), Verdict::Ok) => {
                return Judgement::violation("stream-accepts", desc("one-shot fails, stream succeeds"))
            }
            _ => return Judgement::violation("verdict-differs", desc("verdicts differ")),
        }
        Judgement::Pass
    }
}
