//! C11 — Decoders consume exactly the compressed payload and nothing after it.

use super::c02::chunks_text;
use super::common::*;
use crate::gen::bytes::hexser;
use crate::gen::lzma2::*;
use crate::gen::program::*;
use crate::gen::xz::*;
use crate::refmodel::enc::{encode_lzma, lzma_header, lzma_header5};
use crate::refmodel::lzma2::{write_lzma2, Chunk};
use crate::refmodel::model::Props;
use crate::refmodel::program::{interpret, program_text, Op};
use crate::refmodel::xz::write_xz;
use crate::runner::*;
use crate::sut::{self, Io, Opts, ReaderKind, USize};
use proptest::prelude::*;
use serde::{Deserialize, Serialize};
use serde_json::json;

#[derive(Clone, Debug, Hash, Serialize, Deserialize)]
pub enum Payload {
    /// 13-byte header with the true size, no marker
    LzmaH13 { props: Props, dict: u32, ops: Vec<Op> },
    /// 5-byte header, UseProvided(Some(L))
    LzmaH5 { props: Props, dict: u32, ops: Vec<Op> },
    /// 13-byte header with garbage size field, ReadHeaderButUseProvided(Some(L))
    LzmaH13Provided { props: Props, dict: u32, ops: Vec<Op>, field: u64 },
    /// raw decoder, size Some(L)
    LzmaRaw { props: Props, dict: u32, ops: Vec<Op> },
    /// raw decoder object constructed with size Some(init), reset(Some(Some(L))), reset(None)
    LzmaRawReused { props: Props, dict: u32, ops: Vec<Op>, init: u64 },
    Lzma2 { chunks: Vec<Chunk>, raw_api: bool },
    /// converse: stream with end marker (no size) followed by bytes must be rejected
    LzmaMarker { props: Props, dict: u32, ops: Vec<Op> },
    /// converse: the same under ReadHeaderButUseProvided(None) with an arbitrary (ignored) size field
    LzmaMarkerIgnoredField { props: Props, dict: u32, ops: Vec<Op>, field: u64 },
    /// converse: .xz followed by bytes must be rejected
    Xz { file: XzCase },
}

#[derive(Clone, Debug, Hash, Serialize, Deserialize)]
pub struct Case {
    pub payload: Payload,
    #[serde(with = "hexser")]
    pub trailing: Vec<u8>,
    pub reader: ReaderKind,
}

#[derive(Clone, Debug)]
pub enum AbsPayload {
    Lzma { which: u8, props: Props, dict_h: u32, dict_r: u32, prog: Vec<AbsOp>, field: u64 },
    Lzma2 { chunks: Vec<AbsChunk>, raw_api: bool },
    Xz(AbsXz),
}

#[derive(Clone, Debug)]
pub enum AbsTrail {
    None,
    Bytes(Vec<u8>),
    Zeros(usize),
    /// another valid stream of the same kind
    Another,
}

pub struct C11;

fn reader_strategy() -> impl Strategy<Value = (u8, usize, Vec<usize>)> {
    // (kind, cap, pattern)
    (0u8..8, 1usize..=64, prop::collection::vec(prop_oneof![4 => 1usize..6, 2 => 6usize..40, 1 => 40usize..400], 1..6))
}

impl Property for C11 {
    type Abs = (AbsPayload, AbsTrail, (u8, usize, Vec<usize>));
    type Case = Case;
    fn id(&self) -> &'static str {
        "C11"
    }
    fn cases(&self, tier: Tier) -> u32 {
        tier.pick(300_000, 3_000_000)
    }
    fn strategy(&self, tier: Tier) -> BoxedStrategy<Self::Abs> {
        let n = tier.pick(30, 60);
        let pl = prop_oneof![
            12 => (0u8..5, props_any(), dict_header(), dict_raw(), abs_program(n, 20), prop::sample::select(vec![0u64, 1, u64::MAX, 1 << 40]))
                .prop_map(|(which, props, dict_h, dict_r, prog, field)| AbsPayload::Lzma { which, props, dict_h, dict_r, prog, field }),
            8 => (abs_chunks(4, 12, 10, false), any::<bool>()).prop_map(|(chunks, raw_api)| AbsPayload::Lzma2 { chunks, raw_api }),
            1 => (abs_chunks(2, 12, 10, true), any::<bool>()).prop_map(|(chunks, raw_api)| AbsPayload::Lzma2 { chunks, raw_api }),
            4 => abs_xz(2, 2, 8, 2000).prop_map(AbsPayload::Xz),
        ];
        let trail = prop_oneof![
            2 => Just(AbsTrail::None),
            5 => prop::collection::vec(any::<u8>(), 1..=64).prop_map(AbsTrail::Bytes),
            2 => (1usize..=12).prop_map(AbsTrail::Zeros),
            2 => Just(AbsTrail::Another),
        ];
        (pl, trail, reader_strategy()).boxed()
    }
    fn concretize(&self, a: &Self::Abs) -> Case {
        let payload = match &a.0 {
            AbsPayload::Lzma { which, props, dict_h, dict_r, prog, field } => {
                let raw = *which == 3;
                let dict = if raw { *dict_r } else { *dict_h };
                let eff = if raw { dict as u64 } else { (dict as u64).max(4096) };
                let ops = concretize(prog, ConcCfg { dict: eff, max_out: 20_000, max_ops: 3000 });
                match which {
                    0 => Payload::LzmaH13 { props: *props, dict, ops },
                    1 => Payload::LzmaH5 { props: *props, dict, ops },
                    2 => Payload::LzmaH13Provided { props: *props, dict, ops, field: *field },
                    3 if *field == 1 => Payload::LzmaRawReused { props: *props, dict, ops, init: (*dict_h as u64) % 50 },
                    3 => Payload::LzmaRaw { props: *props, dict, ops },
                    _ if *field != 0 => {
                        let l: u64 = ops.iter().map(|o| crate::gen::program::op_out_len(o) as u64).sum();
                        let f = match *field {
                            1 => l,
                            u64::MAX => l.saturating_sub(1),
                            _ => (*dict_r as u64) % 7,
                        };
                        Payload::LzmaMarkerIgnoredField { props: *props, dict, ops, field: f }
                    }
                    _ => Payload::LzmaMarker { props: *props, dict, ops },
                }
            }
            AbsPayload::Lzma2 { chunks, raw_api } => Payload::Lzma2 {
                chunks: concretize_chunks(chunks, L2Cfg { max_total: 3 << 20, max_chunk_ops: 90_000 }),
                raw_api: *raw_api,
            },
            AbsPayload::Xz(x) => Payload::Xz { file: concretize_xz(x) },
        };
        let mut c = Case {
            payload,
            trailing: vec![],
            reader: ReaderKind::Slice,
        };
        let (bytes, _, _) = match build(&c.payload) {
            Ok(x) => x,
            Err(_) => (vec![], vec![], 0),
        };
        c.trailing = match &a.1 {
            AbsTrail::None => vec![],
            AbsTrail::Bytes(b) => b.clone(),
            AbsTrail::Zeros(n) => vec![0; *n],
            AbsTrail::Another => bytes.clone(),
        };
        let plen = bytes.len();
        let (kind, cap, pattern) = &a.2;
        c.reader = match kind {
            0 => ReaderKind::Slice,
            1 => ReaderKind::Cursor,
            2 | 3 => ReaderKind::BufReader { cap: *cap, reads: pattern.clone() },
            4 => ReaderKind::Chunky { pattern: vec![1], stops: vec![] },
            5 => ReaderKind::Chunky {
                pattern: vec![usize::MAX],
                stops: vec![plen.saturating_sub(1), plen, plen + 1],
            },
            _ => ReaderKind::Chunky { pattern: pattern.clone(), stops: vec![plen] },
        };
        c
    }
    fn rule(&self) -> String {
        "proptest generates a valid payload {LZMA with 13-byte header and true size, 5-byte header + UseProvided(Some L), 13-byte header with garbage size field + ReadHeaderButUseProvided(Some L), raw LZMA with size, LZMA2 via lzma2_decompress and via raw::Lzma2Decoder} followed by trailing bytes {none, 1..=64 random bytes, 1..=12 zero bytes, a second copy of the same stream} and read through {&[u8], Cursor, BufReader(capacity 1..=64, short reads), 1-byte BufRead, BufRead with refill boundaries exactly at payload end -1/0/+1, random BufRead}. Oracle: Ok, exact output, and the reader's logical position after the call == payload length (header + 5 + number of range-coder normalisations counted by the reference encoder; LZMA2: through the 0x00 end byte). Converse cases: .lzma with end marker followed by >= 1 byte, and .xz followed by >= 1 byte (zeros, random, a second stream) must be rejected. Non-trivial = trailing bytes non-empty; distinct = SipHash of the concrete case.".into()
    }
    fn required_classes(&self, tier: Tier) -> Vec<(&'static str, u64)> {
        let k = tier.pick(1, 10);
        vec![
            ("payload:LzmaH13", 2000 * k),
            ("payload:LzmaH5", 2000 * k),
            ("payload:LzmaRaw", 2000 * k),
            ("payload:Lzma2", 5000 * k),
            ("converse:LzmaMarker+trailing", 2000 * k),
            ("converse:Xz+trailing", 2000 * k),
            ("reader:BufReader", 5000 * k),
            ("reader:Chunky", 5000 * k),
            ("trailing:another stream", 2000 * k),
            ("trailing:zeros", 2000 * k),
            ("payload with size 0", 100 * k),
        ]
    }

    fn judge(&self, c: &mut Case, st: &mut LocalStats) -> Judgement {
        let (bytes, expected, _hl) = match build(&c.payload) {
            Ok(x) => x,
            Err(e) => return Judgement::HarnessBug(e),
        };
        let plen = bytes.len();
        let mut input = bytes.clone();
        input.extend_from_slice(&c.trailing);
        let io = Io::default();
        let name = match &c.payload {
            Payload::LzmaH13 { .. } => "LzmaH13",
            Payload::LzmaH5 { .. } => "LzmaH5",
            Payload::LzmaH13Provided { .. } => "LzmaH13Provided",
            Payload::LzmaRaw { .. } => "LzmaRaw",
            Payload::LzmaRawReused { .. } => "LzmaRawReused",
            Payload::Lzma2 { .. } => "Lzma2",
            Payload::LzmaMarker { .. } => "LzmaMarker",
            Payload::LzmaMarkerIgnoredField { .. } => "LzmaMarkerIgnoredField",
            Payload::Xz { .. } => "Xz",
        };
        st.class(match &c.reader {
            ReaderKind::Slice => "reader:Slice",
            ReaderKind::Cursor => "reader:Cursor",
            ReaderKind::BufReader { .. } => "reader:BufReader",
            ReaderKind::Chunky { .. } => "reader:Chunky",
        });
        if !c.trailing.is_empty() {
            st.nontrivial(c);
            if c.trailing == bytes {
                st.class("trailing:another stream");
            } else if c.trailing.iter().all(|b| *b == 0) {
                st.class("trailing:zeros");
            } else {
                st.class("trailing:random");
            }
            st.sample(name, || {
                json!({"payload": describe(&c.payload), "payload_len": plen, "trailing": hex_prefix(&c.trailing, 16), "reader": format!("{:?}", c.reader)})
            });
        }
        if expected.is_empty() && !matches!(c.payload, Payload::Xz { .. } | Payload::LzmaMarker { .. } | Payload::LzmaMarkerIgnoredField { .. }) {
            st.class("payload with size 0");
        }
        let l = expected.len() as u64;
        st.eval();
        let r = match &c.payload {
            Payload::LzmaH13 { .. } => sut::lzma_decompress(&input, &Opts::with(USize::ReadFromHeader), &c.reader, &io),
            Payload::LzmaH5 { .. } => sut::lzma_decompress(&input, &Opts::with(USize::UseProvided(Some(l))), &c.reader, &io),
            Payload::LzmaH13Provided { .. } => {
                sut::lzma_decompress(&input, &Opts::with(USize::ReadHeaderButUseProvided(Some(l))), &c.reader, &io)
            }
            Payload::LzmaRaw { props, dict, .. } => sut::raw_lzma(*props, *dict, Some(l), None, &input, &c.reader, &io),
            Payload::LzmaRawReused { props, dict, init, .. } => {
                sut::raw_lzma_reused(*props, *dict, *init, Some(l), true, &input, &c.reader, &io)
            }
            Payload::Lzma2 { raw_api, .. } => {
                if *raw_api {
                    sut::raw_lzma2(&input, &c.reader, &io)
                } else {
                    sut::lzma2_decompress(&input, &c.reader, &io)
                }
            }
            Payload::LzmaMarker { .. } => sut::lzma_decompress(&input, &Opts::with(USize::ReadFromHeader), &c.reader, &io),
            Payload::LzmaMarkerIgnoredField { .. } => {
                sut::lzma_decompress(&input, &Opts::with(USize::ReadHeaderButUseProvided(None)), &c.reader, &io)
            }
            Payload::Xz { .. } => sut::xz_decompress(&input, &c.reader, &io),
        };
        let what = format!(
            "{} payload={}B [{}] trailing={} reader={:?}",
            name,
            plen,
            describe(&c.payload),
            hex_prefix(&c.trailing, 16),
            c.reader
        );
        match &c.payload {
            Payload::LzmaMarker { .. } | Payload::LzmaMarkerIgnoredField { .. } | Payload::Xz { .. } => {
                let converse = if matches!(c.payload, Payload::Xz { .. }) { "converse:Xz" } else { "converse:LzmaMarker" };
                if c.trailing.is_empty() {
                    st.class(&format!("{}+nothing", converse));
                    if !r.verdict.is_ok() || r.out != expected {
                        return Judgement::violation("reject-valid", format!("whole-file decoder rejects a valid file: {} ; {}", what, r.verdict.brief()));
                    }
                } else {
                    st.class(&format!("{}+trailing", converse));
                    if r.verdict.is_ok() {
                        return Judgement::violation(
                            format!("trailing-accepted:{}", name),
                            format!("whole-file decoder accepts trailing bytes: {}", what),
                        );
                    }
                }
            }
            _ => {
                st.class(&format!("payload:{}", name));
                if !r.verdict.is_ok() {
                    return Judgement::violation(
                        format!("embedded-payload-rejected:{}", name),
                        format!("payload followed by other data is not decoded in place: {} ; {}", what, r.verdict.brief()),
                    );
                }
                if r.out != expected {
                    return Judgement::violation("wrong-output", format!("{} ; {}", what, first_diff(&r.out, &expected)));
                }
                if r.consumed != plen {
                    return Judgement::violation(
                        format!("consumed-mismatch:{}", name),
                        format!("reader left at {} but the payload ends at {}: {}", r.consumed, plen, what),
                    );
                }
            }
        }
        Judgement::Pass
    }
}

fn describe(p: &Payload) -> String {
    match p {
        Payload::LzmaH13 { props, dict, ops }
        | Payload::LzmaH5 { props, dict, ops }
        | Payload::LzmaRaw { props, dict, ops }
        | Payload::LzmaRawReused { props, dict, ops, .. }
        | Payload::LzmaMarker { props, dict, ops }
        | Payload::LzmaMarkerIgnoredField { props, dict, ops, .. }
        | Payload::LzmaH13Provided { props, dict, ops, .. } => {
            format!("lc{}lp{}pb{} dict={} ops=[{}]", props.lc, props.lp, props.pb, dict, program_text(ops, 12))
        }
        Payload::Lzma2 { chunks, raw_api } => format!("raw_api={} {}", raw_api, chunks_text(chunks, 4)),
        Payload::Xz { file } => super::c03::xz_text(file),
    }
}

/// (payload bytes incl. header, expected output, header length)
fn build(p: &Payload) -> Result<(Vec<u8>, Vec<u8>, usize), String> {
    match p {
        Payload::LzmaH13 { props, dict, ops }
        | Payload::LzmaH5 { props, dict, ops }
        | Payload::LzmaRaw { props, dict, ops }
        | Payload::LzmaRawReused { props, dict, ops, .. }
        | Payload::LzmaMarker { props, dict, ops }
        | Payload::LzmaMarkerIgnoredField { props, dict, ops, .. }
        | Payload::LzmaH13Provided { props, dict, ops, .. } => {
            let raw = matches!(p, Payload::LzmaRaw { .. } | Payload::LzmaRawReused { .. });
            let eff = if raw { *dict as u64 } else { (*dict as u64).max(4096) };
            let expected = interpret(ops, eff).map_err(|e| format!("{:?}", e))?;
            let marker = matches!(p, Payload::LzmaMarker { .. } | Payload::LzmaMarkerIgnoredField { .. });
            let enc = encode_lzma(*props, ops, if marker { Some(2) } else { None });
            let mut f = match p {
                Payload::LzmaH13 { .. } => lzma_header(*props, *dict, Some(expected.len() as u64)),
                Payload::LzmaMarker { .. } => lzma_header(*props, *dict, None),
                Payload::LzmaH13Provided { field, .. } | Payload::LzmaMarkerIgnoredField { field, .. } => {
                    let mut h = lzma_header(*props, *dict, None);
                    h[5..13].copy_from_slice(&field.to_le_bytes());
                    h
                }
                Payload::LzmaH5 { .. } => lzma_header5(*props, *dict),
                _ => vec![],
            };
            let hl = f.len();
            f.extend_from_slice(&enc.payload);
            Ok((f, expected, hl))
        }
        Payload::Lzma2 { chunks, .. } => {
            if chunks.is_empty() {
                return Ok((vec![0], vec![], 0));
            }
            let enc = write_lzma2(chunks, false)?;
            Ok((enc.bytes, enc.output, 0))
        }
        Payload::Xz { file } => {
            let spec = build_spec(file)?;
            let f = write_xz(&spec, None);
            let mut out = Vec::new();
            for b in &spec.blocks {
                out.extend_from_slice(&b.content);
            }
            Ok((f.bytes, out, 0))
        }
    }
}
