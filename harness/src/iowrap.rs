//! Readers and sinks with generated fragmentation and injected faults.

use std::cell::RefCell;
use std::io::{self, BufRead, Read, Write};
use std::rc::Rc;

/// A BufRead over a byte slice that exposes its data in generated pieces.
/// Honours the BufRead contract: an empty `fill_buf` means EOF only.
pub struct ChunkyReader<'a> {
    data: &'a [u8],
    pos: usize,
    cur_end: usize,
    /// refill sizes (cycled); each is clamped to >= 1
    pattern: Vec<usize>,
    idx: usize,
    /// explicit absolute offsets at which a refill must stop (sorted)
    stops: Vec<usize>,
    /// number of source calls (fill_buf + read) so far
    pub calls: usize,
    /// fail the k-th source call (0-based) with ErrorKind::Other
    pub fail_at: Option<usize>,
    /// once failed, every later source call fails too
    pub fail_sticky: bool,
    /// the injected failure is ErrorKind::Interrupted (by convention retryable)
    pub fail_interrupted: bool,
    /// return ErrorKind::Interrupted `count` times in a row once the logical
    /// position reaches `pos` (a burst at one offset)
    pub interrupt_burst: Option<(usize, usize)>,
    pub failed: bool,
    /// Read::read returns at most this many bytes per call (short reads)
    pub read_max: Option<usize>,
}

thread_local! {
    static ERR_STYLE: std::cell::Cell<u8> = const { std::cell::Cell::new(0) };
}

/// How injected (non-Interrupted) failures are constructed on this thread:
/// 0 = new(Other, text), 1 = from(Other) (no payload), 2 = from(BrokenPipe),
/// 3 = from_raw_os_error(ENOSPC), 4 = new(UnexpectedEof, text), 5 = new(InvalidData, text),
/// 6 = new(WouldBlock, text), 7 = new(Interrupted, text), 8 = new(TimedOut, text).
/// Returns a guard that restores style 0.
pub fn set_err_style(s: u8) -> ErrStyleGuard {
    ERR_STYLE.with(|c| c.set(s % 9));
    ErrStyleGuard
}
pub struct ErrStyleGuard;
impl Drop for ErrStyleGuard {
    fn drop(&mut self) {
        ERR_STYLE.with(|c| c.set(0));
    }
}

fn injected(msg: &'static str) -> io::Error {
    match ERR_STYLE.with(|c| c.get()) {
        1 => io::Error::from(io::ErrorKind::Other),
        2 => io::Error::from(io::ErrorKind::BrokenPipe),
        3 => io::Error::from_raw_os_error(28),
        4 => io::Error::new(io::ErrorKind::UnexpectedEof, msg),
        5 => io::Error::new(io::ErrorKind::InvalidData, msg),
        // kinds that callers conventionally treat as retryable (used by C16: a stream that returned an error stays failed whatever the kind)
        6 => io::Error::new(io::ErrorKind::WouldBlock, msg),
        7 => io::Error::new(io::ErrorKind::Interrupted, msg),
        8 => io::Error::new(io::ErrorKind::TimedOut, msg),
        _ => io::Error::new(io::ErrorKind::Other, msg),
    }
}

impl<'a> ChunkyReader<'a> {
    pub fn new(data: &'a [u8], pattern: Vec<usize>) -> Self {
        ChunkyReader {
            data,
            pos: 0,
            cur_end: 0,
            pattern: if pattern.is_empty() { vec![usize::MAX] } else { pattern },
            idx: 0,
            stops: Vec::new(),
            calls: 0,
            fail_at: None,
            fail_sticky: false,
            fail_interrupted: false,
            interrupt_burst: None,
            failed: false,
            read_max: None,
        }
    }
    pub fn all_at_once(data: &'a [u8]) -> Self {
        Self::new(data, vec![usize::MAX])
    }
    pub fn with_stops(mut self, mut stops: Vec<usize>) -> Self {
        stops.sort_unstable();
        stops.dedup();
        self.stops = stops;
        self
    }
    pub fn position(&self) -> usize {
        self.pos
    }
    fn tick(&mut self) -> io::Result<()> {
        let k = self.calls;
        self.calls += 1;
        if self.fail_at == Some(k) || (self.fail_sticky && self.failed) {
            self.failed = true;
            if self.fail_interrupted {
                return Err(io::Error::new(io::ErrorKind::Interrupted, "injected read fault"));
            }
            return Err(injected("injected read fault"));
        }
        if let Some((pos, count)) = self.interrupt_burst {
            if self.pos >= pos && count > 0 {
                self.interrupt_burst = Some((pos, count - 1));
                self.failed = true;
                return Err(io::Error::new(io::ErrorKind::Interrupted, "injected interrupted burst"));
            }
        }
        Ok(())
    }
    fn refill(&mut self) {
        if self.cur_end <= self.pos {
            let n = self.pattern[self.idx % self.pattern.len()].max(1);
            self.idx += 1;
            let mut end = self.pos.saturating_add(n).min(self.data.len());
            // stop at the first explicit stop strictly inside (pos, end)
            if let Some(&s) = self.stops.iter().find(|&&s| s > self.pos && s < end) {
                end = s;
            }
            self.cur_end = end;
        }
    }
}

impl<'a> Read for ChunkyReader<'a> {
    fn read(&mut self, buf: &mut [u8]) -> io::Result<usize> {
        self.tick()?;
        if buf.is_empty() {
            return Ok(0);
        }
        self.refill();
        let avail = &self.data[self.pos..self.cur_end];
        let mut n = avail.len().min(buf.len());
        if let Some(m) = self.read_max {
            n = n.min(m.max(1));
        }
        buf[..n].copy_from_slice(&avail[..n]);
        self.pos += n;
        Ok(n)
    }
}

impl<'a> BufRead for ChunkyReader<'a> {
    fn fill_buf(&mut self) -> io::Result<&[u8]> {
        self.tick()?;
        self.refill();
        Ok(&self.data[self.pos..self.cur_end])
    }
    fn consume(&mut self, amt: usize) {
        assert!(self.pos + amt <= self.cur_end, "consume beyond fill_buf");
        self.pos += amt;
    }
}

/// A plain `Read` (not BufRead) with short reads, for `BufReader::with_capacity`.
pub struct ShortRead<'a> {
    pub data: &'a [u8],
    pub pos: usize,
    pub pattern: Vec<usize>,
    pub idx: usize,
}

impl<'a> Read for ShortRead<'a> {
    fn read(&mut self, buf: &mut [u8]) -> io::Result<usize> {
        if buf.is_empty() {
            return Ok(0);
        }
        let p = if self.pattern.is_empty() {
            usize::MAX
        } else {
            self.pattern[self.idx % self.pattern.len()].max(1)
        };
        self.idx += 1;
        let n = buf.len().min(p).min(self.data.len() - self.pos);
        buf[..n].copy_from_slice(&self.data[self.pos..self.pos + n]);
        self.pos += n;
        Ok(n)
    }
}

#[derive(Clone, Debug, Default)]
pub struct SinkCfg {
    /// fail the k-th write call (0-based)
    pub fail_write_at: Option<usize>,
    /// on the failing call, first accept this many bytes in an *earlier* short write?
    /// (a write either returns Ok(n) or Err; partial acceptance is modelled by
    /// `max_per_write`, which makes the caller come back)
    pub max_per_write: Vec<usize>,
    pub fail_flush: bool,
    /// refuse (error) once more than cap bytes would be stored
    pub cap: Option<usize>,
    /// do not store the data, only count + hash (non-allocating sink)
    pub discard: bool,
}

#[derive(Debug, Default)]
pub struct SinkState {
    pub cfg: SinkCfg,
    pub data: Vec<u8>,
    pub total: u64,
    pub hash: u64,
    pub writes: usize,
    pub flushes: usize,
    /// `total` at the time of the last successful flush
    pub flushed_total: u64,
    pub write_failed: bool,
    pub flush_failed: bool,
    /// calls (write or flush) after a failure was returned
    pub calls_after_failure: usize,
    /// bytes accepted after a failure was returned
    pub bytes_after_failure: u64,
}

impl SinkState {
    pub fn new(cfg: SinkCfg) -> Self {
        SinkState {
            cfg,
            hash: 0xcbf29ce484222325,
            ..Default::default()
        }
    }
    pub fn failed(&self) -> bool {
        self.write_failed || self.flush_failed
    }
}

impl Write for SinkState {
    fn write(&mut self, buf: &[u8]) -> io::Result<usize> {
        if self.failed() {
            self.calls_after_failure += 1;
        }
        let k = self.writes;
        self.writes += 1;
        if self.cfg.fail_write_at == Some(k) {
            self.write_failed = true;
            return Err(injected("injected write fault"));
        }
        if buf.is_empty() {
            return Ok(0);
        }
        let mut n = buf.len();
        if !self.cfg.max_per_write.is_empty() {
            n = n.min(self.cfg.max_per_write[k % self.cfg.max_per_write.len()].max(1));
        }
        if let Some(c) = self.cfg.cap {
            if self.total + n as u64 > c as u64 {
                self.write_failed = true;
                return Err(io::Error::new(io::ErrorKind::Other, "sink capacity exceeded"));
            }
        }
        for &b in &buf[..n] {
            self.hash = (self.hash ^ b as u64).wrapping_mul(0x100000001b3);
        }
        if !self.cfg.discard {
            self.data.extend_from_slice(&buf[..n]);
        }
        if self.failed() {
            self.bytes_after_failure += n as u64;
        }
        self.total += n as u64;
        Ok(n)
    }
    fn flush(&mut self) -> io::Result<()> {
        if self.failed() {
            self.calls_after_failure += 1;
        }
        self.flushes += 1;
        if self.cfg.fail_flush {
            self.flush_failed = true;
            return Err(injected("injected flush fault"));
        }
        self.flushed_total = self.total;
        Ok(())
    }
}

/// Shared handle so the sink survives a consumed / dropped `Stream`.
#[derive(Clone)]
pub struct SharedSink(pub Rc<RefCell<SinkState>>);

impl SharedSink {
    pub fn new(cfg: SinkCfg) -> Self {
        SharedSink(Rc::new(RefCell::new(SinkState::new(cfg))))
    }
    pub fn len(&self) -> usize {
        self.0.borrow().total as usize
    }
    pub fn data(&self) -> Vec<u8> {
        self.0.borrow().data.clone()
    }
}

impl Write for SharedSink {
    fn write(&mut self, buf: &[u8]) -> io::Result<usize> {
        self.0.borrow_mut().write(buf)
    }
    fn flush(&mut self) -> io::Result<()> {
        self.0.borrow_mut().flush()
    }
}

pub fn fnv(data: &[u8]) -> u64 {
    let mut h = 0xcbf29ce484222325u64;
    for &b in data {
        h = (h ^ b as u64).wrapping_mul(0x100000001b3);
    }
    h
}
