//! Self-test of the reference model (run by `./check setup`): CRC tables vs
//! liblzma, three-way agreement on generated LZMA programs, LZMA2 chunk
//! sequences and XZ files. lzma-rs is not involved here.

use crate::props::{c01, c02, c03};
use crate::runner::{LocalStats, Property, Tier};
use proptest::strategy::{Strategy, ValueTree};
use proptest::test_runner::{Config, RngSeed, TestRunner};

pub fn run() -> i32 {
    let mut st = LocalStats::default();
    let mut bad = 0;
    // CRC tables
    let mut x = 88172645463325252u64;
    for n in [0usize, 1, 2, 3, 9, 100, 4097] {
        let data: Vec<u8> = (0..n)
            .map(|_| {
                x ^= x << 13;
                x ^= x >> 7;
                x ^= x << 17;
                (x >> 24) as u8
            })
            .collect();
        #[cfg(feature = "liblzma")]
        {
            if crate::refmodel::crc::crc32(&data) != crate::ffi_liblzma::crc32(&data)
                || crate::refmodel::crc::crc64(&data) != crate::ffi_liblzma::crc64(&data)
            {
                eprintln!("selftest: CRC mismatch vs liblzma for {} bytes", n);
                bad += 1;
            }
        }
        let _ = data;
    }
    if crate::refmodel::crc::crc32(b"123456789") != 0xCBF4_3926
        || crate::refmodel::crc::crc64(b"123456789") != 0x995D_C9BB_DF19_39FA
    {
        eprintln!("selftest: CRC check values wrong");
        bad += 1;
    }
    let mut runner = TestRunner::new(Config {
        rng_seed: RngSeed::Fixed(0xC0FFEE),
        failure_persistence: None,
        ..Config::default()
    });
    let s1 = c01::C01.strategy(Tier::Quick);
    for _ in 0..3000 {
        let v = s1.new_tree(&mut runner).unwrap().current();
        let c = c01::C01.concretize(&v);
        if let Err(e) = c01::reference_check(&c, &mut st) {
            eprintln!("selftest: LZMA reference disagreement: {}", e);
            bad += 1;
            break;
        }
    }
    let s2 = c02::C02.strategy(Tier::Quick);
    for _ in 0..1500 {
        let v = s2.new_tree(&mut runner).unwrap().current();
        let c = c02::C02.concretize(&v);
        if c.chunks.is_empty() {
            continue;
        }
        if let Err(e) = c02::reference_check(&c.chunks, &mut st) {
            eprintln!("selftest: LZMA2 reference disagreement: {}", e);
            bad += 1;
            break;
        }
    }
    let s3 = c03::C03.strategy(Tier::Quick);
    for _ in 0..1500 {
        let v = s3.new_tree(&mut runner).unwrap().current();
        let c = c03::C03.concretize(&v);
        if let Err(e) = c03::build_valid(&c, &mut st) {
            eprintln!("selftest: XZ reference disagreement: {}", e);
            bad += 1;
            break;
        }
    }
    let lib = st.classes.get("liblzma-second-opinion").copied().unwrap_or(0);
    println!(
        "selftest [{}]: reference model agrees with itself on 6000 generated cases; liblzma consulted {} times; {} problem(s)",
        if crate::runner::checked_build() { "checked" } else { "release" },
        lib,
        bad
    );
    if bad > 0 {
        2
    } else {
        0
    }
}
