//! Minimal hand-written bindings to the system liblzma (5.4.x), used only as a
//! *second opinion* on the harness' own reference model.

#![allow(non_camel_case_types)]

use crate::refmodel::model::Props;
use std::os::raw::{c_int, c_void};

#[repr(C)]
struct lzma_stream {
    next_in: *const u8,
    avail_in: usize,
    total_in: u64,
    next_out: *mut u8,
    avail_out: usize,
    total_out: u64,
    allocator: *const c_void,
    internal: *mut c_void,
    reserved_ptr1: *mut c_void,
    reserved_ptr2: *mut c_void,
    reserved_ptr3: *mut c_void,
    reserved_ptr4: *mut c_void,
    seek_pos: u64,
    reserved_int2: u64,
    reserved_int3: usize,
    reserved_int4: usize,
    reserved_enum1: c_int,
    reserved_enum2: c_int,
}

#[repr(C)]
struct lzma_options_lzma {
    dict_size: u32,
    preset_dict: *const u8,
    preset_dict_size: u32,
    lc: u32,
    lp: u32,
    pb: u32,
    mode: c_int,
    nice_len: u32,
    mf: c_int,
    depth: u32,
    ext_flags: u32,
    ext_size_low: u32,
    ext_size_high: u32,
    reserved_int4: u32,
    reserved_int5: u32,
    reserved_int6: u32,
    reserved_int7: u32,
    reserved_int8: u32,
    reserved_enum1: c_int,
    reserved_enum2: c_int,
    reserved_enum3: c_int,
    reserved_enum4: c_int,
    reserved_ptr1: *mut c_void,
    reserved_ptr2: *mut c_void,
}

#[repr(C)]
struct lzma_filter {
    id: u64,
    options: *mut c_void,
}

const LZMA_VLI_UNKNOWN: u64 = u64::MAX;
const LZMA_FILTER_LZMA1EXT: u64 = 0x4000_0000_0000_0002;
const LZMA_FILTER_LZMA2: u64 = 0x21;
const LZMA_RUN: c_int = 0;
const LZMA_FINISH: c_int = 3;
pub const LZMA_OK: c_int = 0;
pub const LZMA_STREAM_END: c_int = 1;

#[link(name = "lzma")]
extern "C" {
    fn lzma_raw_decoder(strm: *mut lzma_stream, filters: *const lzma_filter) -> c_int;
    fn lzma_alone_decoder(strm: *mut lzma_stream, memlimit: u64) -> c_int;
    fn lzma_stream_decoder(strm: *mut lzma_stream, memlimit: u64, flags: u32) -> c_int;
    fn lzma_code(strm: *mut lzma_stream, action: c_int) -> c_int;
    fn lzma_end(strm: *mut lzma_stream);
    fn lzma_crc32(buf: *const u8, size: usize, crc: u32) -> u32;
    fn lzma_crc64(buf: *const u8, size: usize, crc: u64) -> u64;
    fn lzma_version_number() -> u32;
}

pub fn version() -> u32 {
    unsafe { lzma_version_number() }
}

pub fn crc32(b: &[u8]) -> u32 {
    unsafe { lzma_crc32(b.as_ptr(), b.len(), 0) }
}
pub fn crc64(b: &[u8]) -> u64 {
    unsafe { lzma_crc64(b.as_ptr(), b.len(), 0) }
}

#[derive(Debug, Clone, PartialEq, Eq)]
pub struct LibOut {
    /// final lzma_ret (1 = STREAM_END = success)
    pub ret: i32,
    pub out: Vec<u8>,
    /// input bytes consumed
    pub consumed: usize,
}

impl LibOut {
    pub fn ok(&self) -> bool {
        self.ret == LZMA_STREAM_END
    }
}

fn zero_stream() -> lzma_stream {
    unsafe { std::mem::zeroed() }
}

fn drive(strm: &mut lzma_stream, input: &[u8], out_cap: usize) -> LibOut {
    let mut out: Vec<u8> = Vec::new();
    let mut buf = vec![0u8; 1 << 16];
    strm.next_in = input.as_ptr();
    strm.avail_in = input.len();
    let mut ret;
    loop {
        strm.next_out = buf.as_mut_ptr();
        strm.avail_out = buf.len();
        ret = unsafe { lzma_code(strm, if strm.avail_in == 0 { LZMA_FINISH } else { LZMA_RUN }) };
        let n = buf.len() - strm.avail_out;
        out.extend_from_slice(&buf[..n]);
        if ret != LZMA_OK {
            break;
        }
        if out.len() > out_cap {
            ret = -1;
            break;
        }
        if n == 0 && strm.avail_in == 0 {
            // FINISH with no progress: one more call yields BUF_ERROR; do it
            strm.next_out = buf.as_mut_ptr();
            strm.avail_out = buf.len();
            ret = unsafe { lzma_code(strm, LZMA_FINISH) };
            let n = buf.len() - strm.avail_out;
            out.extend_from_slice(&buf[..n]);
            if ret != LZMA_OK || n == 0 {
                break;
            }
        }
    }
    let consumed = input.len() - strm.avail_in;
    unsafe { lzma_end(strm) };
    LibOut { ret, out, consumed }
}

fn opts(dict: u32, p: Props) -> lzma_options_lzma {
    let mut o: lzma_options_lzma = unsafe { std::mem::zeroed() };
    o.dict_size = dict.max(4096);
    o.lc = p.lc;
    o.lp = p.lp;
    o.pb = p.pb;
    o
}

/// Raw LZMA1 payload (no header). Needs lc+lp <= 4.
pub fn raw_lzma1(p: Props, dict: u32, size: Option<u64>, payload: &[u8], out_cap: usize) -> LibOut {
    assert!(p.lc + p.lp <= 4);
    let mut o = opts(dict, p);
    o.ext_flags = 1; // allow end marker
    let s = size.unwrap_or(u64::MAX);
    o.ext_size_low = s as u32;
    o.ext_size_high = (s >> 32) as u32;
    let filters = [
        lzma_filter {
            id: LZMA_FILTER_LZMA1EXT,
            options: &mut o as *mut _ as *mut c_void,
        },
        lzma_filter {
            id: LZMA_VLI_UNKNOWN,
            options: std::ptr::null_mut(),
        },
    ];
    let mut strm = zero_stream();
    let r = unsafe { lzma_raw_decoder(&mut strm, filters.as_ptr()) };
    if r != LZMA_OK {
        return LibOut {
            ret: 100 + r,
            out: vec![],
            consumed: 0,
        };
    }
    drive(&mut strm, payload, out_cap)
}

pub fn raw_lzma2(dict: u32, stream: &[u8], out_cap: usize) -> LibOut {
    let mut o = opts(dict, Props::new(3, 0, 2));
    let filters = [
        lzma_filter {
            id: LZMA_FILTER_LZMA2,
            options: &mut o as *mut _ as *mut c_void,
        },
        lzma_filter {
            id: LZMA_VLI_UNKNOWN,
            options: std::ptr::null_mut(),
        },
    ];
    let mut strm = zero_stream();
    let r = unsafe { lzma_raw_decoder(&mut strm, filters.as_ptr()) };
    if r != LZMA_OK {
        return LibOut {
            ret: 100 + r,
            out: vec![],
            consumed: 0,
        };
    }
    drive(&mut strm, stream, out_cap)
}

/// Does liblzma's .lzma ("alone") decoder accept this header at all?
pub fn alone_header_ok(file: &[u8]) -> bool {
    if file.len() < 13 {
        return false;
    }
    let p = match Props::from_byte(file[0]) {
        Some(p) => p,
        None => return false,
    };
    if p.lc + p.lp > 4 {
        return false;
    }
    let d = u32::from_le_bytes(file[1..5].try_into().unwrap());
    // dictionary must be 2^n or 2^n + 2^(n-1) (or u32::MAX)
    if d != u32::MAX {
        let mut x = d.wrapping_sub(1);
        x |= x >> 2;
        x |= x >> 3;
        x |= x >> 4;
        x |= x >> 8;
        x |= x >> 16;
        x = x.wrapping_add(1);
        if x != d {
            return false;
        }
    }
    let s = u64::from_le_bytes(file[5..13].try_into().unwrap());
    s == u64::MAX || s < (1u64 << 38)
}

pub fn alone(file: &[u8], out_cap: usize) -> LibOut {
    let mut strm = zero_stream();
    let r = unsafe { lzma_alone_decoder(&mut strm, u64::MAX) };
    if r != LZMA_OK {
        return LibOut {
            ret: 100 + r,
            out: vec![],
            consumed: 0,
        };
    }
    drive(&mut strm, file, out_cap)
}

/// Single-stream .xz decoder (no LZMA_CONCATENATED).
pub fn xz_stream(file: &[u8], out_cap: usize) -> LibOut {
    let mut strm = zero_stream();
    let r = unsafe { lzma_stream_decoder(&mut strm, u64::MAX, 0) };
    if r != LZMA_OK {
        return LibOut {
            ret: 100 + r,
            out: vec![],
            consumed: 0,
        };
    }
    drive(&mut strm, file, out_cap)
}
