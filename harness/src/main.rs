use serde_json::json;
use std::path::PathBuf;
use verif::props;
use verif::runner::*;

fn usage() -> ! {
    eprintln!("usage: verif check <ID> <quick|thorough> [--evidence-out F] [--merge F]\n       verif replay <file>\n       verif selftest");
    std::process::exit(2)
}

macro_rules! dispatch {
    ($id:expr, $f:ident, $($arg:expr),*) => {
        match $id {
            "C01" => $f(&props::c01::C01, $($arg),*),
            "C02" => $f(&props::c02::C02, $($arg),*),
            "C03" => $f(&props::c03::C03, $($arg),*),
            "C04" => $f(&props::c04::C04, $($arg),*),
            "C05" => $f(&props::c05::C05, $($arg),*),
            "C06" => $f(&props::c06::C06, $($arg),*),
            "C07" => $f(&props::c07::C07, $($arg),*),
            "C08" => $f(&props::c08::C08, $($arg),*),
            "C09" => $f(&props::c09::C09, $($arg),*),
            "C10" => $f(&props::c10::C10, $($arg),*),
            "C11" => $f(&props::c11::C11, $($arg),*),
            "C12" => $f(&props::c12::C12, $($arg),*),
            "C13" => $f(&props::c13::C13, $($arg),*),
            "C14" => $f(&props::c14::C14, $($arg),*),
            "C15" => $f(&props::c15::C15, $($arg),*),
            "C16" => $f(&props::c16::C16, $($arg),*),
            "C17" => $f(&props::c17::C17, $($arg),*),
            "C18" => $f(&props::c18::C18, $($arg),*),
            _ => { eprintln!("unknown property {}", $id); 2 }
        }
    };
}

fn extra() -> serde_json::Value {
    #[cfg(feature = "liblzma")]
    {
        json!({"liblzma_second_opinion": true, "liblzma_version": verif::ffi_liblzma::version()})
    }
    #[cfg(not(feature = "liblzma"))]
    {
        json!({"liblzma_second_opinion": false})
    }
}

fn main() {
    let args: Vec<String> = std::env::args().collect();
    if args.len() < 2 {
        usage();
    }
    let code = match args[1].as_str() {
        "check" => {
            if args.len() < 4 {
                usage();
            }
            let id = args[2].as_str();
            let tier = match args[3].as_str() {
                "quick" => Tier::Quick,
                "thorough" => Tier::Thorough,
                _ => usage(),
            };
            let seed = std::env::var("VERIF_SEED")
                .ok()
                .and_then(|s| s.trim().parse::<i64>().ok())
                .unwrap_or(0) as u64;
            let mut ca = CheckArgs { tier, seed, evidence_out: None, merge: None };
            let mut i = 4;
            while i < args.len() {
                match args[i].as_str() {
                    "--evidence-out" => { ca.evidence_out = Some(PathBuf::from(&args[i + 1])); i += 2; }
                    "--merge" => { ca.merge = Some(PathBuf::from(&args[i + 1])); i += 2; }
                    _ => usage(),
                }
            }
            let ex = extra();
            dispatch!(id, run_check, &ca, ex)
        }
        "replay" => {
            if args.len() < 3 {
                usage();
            }
            let path = PathBuf::from(&args[2]);
            let text = std::fs::read_to_string(&path).unwrap_or_else(|e| { eprintln!("{}", e); std::process::exit(2) });
            let v: serde_json::Value = serde_json::from_str(&text).unwrap_or_else(|e| { eprintln!("{}", e); std::process::exit(2) });
            let id = v["property"].as_str().unwrap_or("").to_string();
            dispatch!(id.as_str(), run_replay, &path)
        }
        "selftest" => verif::selftest::run(),
        "corpus" => {
            if args.len() < 3 {
                usage();
            }
            verif::corpus::write_all(&PathBuf::from(&args[2]))
        }
        "fuzzcase" => {
            // verif fuzzcase <target> <file>: re-judge a fuzzer artifact with the non-fuzz binary
            if args.len() < 4 {
                usage();
            }
            let data = std::fs::read(&args[3]).unwrap_or_else(|e| { eprintln!("{}", e); std::process::exit(2) });
            let target = args[2].as_str();
            let prop = verif::fuzzbridge::property_of(target);
            match verif::fuzzbridge::judge_bytes(target, &data) {
                Some((sig, msg, case)) => {
                    let v = json!({"property": prop, "sig": sig, "message": msg, "seed": 0, "tier": "thorough",
                        "build": if checked_build() { "checked" } else { "release" }, "source": format!("libFuzzer target {}", target), "case": case});
                    let dir = verif_dir().join("replays");
                    let _ = std::fs::create_dir_all(&dir);
                    let text = serde_json::to_string_pretty(&v).unwrap();
                    let path = dir.join(format!("{}-fuzz-{:016x}.json", prop, hash64(&text)));
                    let _ = std::fs::write(&path, text);
                    println!("VIOLATION property={} replay={}", prop, path.display());
                    println!("  sig={} {}", sig, verif::sut::trunc(&msg, 600));
                    1
                }
                None => {
                    println!("fuzz artifact {}: property holds on this input (not reproduced)", args[3]);
                    0
                }
            }
        }
        "fuzzmerge" => {
            // verif fuzzmerge <ID> <target> <runs> <corpus_files> <seconds> <crashes>
            if args.len() < 8 {
                usage();
            }
            let path = verif_dir().join("evidence").join(format!("{}.json", args[2]));
            let mut ev: serde_json::Value = std::fs::read_to_string(&path).ok().and_then(|t| serde_json::from_str(&t).ok()).unwrap_or(json!({}));
            let runs: u64 = args[4].parse().unwrap_or(0);
            if let Some(c) = ev.get_mut("coverage").and_then(|c| c.as_object_mut()) {
                let e = c.get("evaluations").and_then(|x| x.as_u64()).unwrap_or(0);
                c.insert("evaluations".into(), json!(e + runs));
                c.insert("fuzz".into(), json!({"engine": "libFuzzer (cargo-fuzz, sanitizer none, debug assertions + overflow checks on)", "target": args[3], "runs": runs,
                    "corpus_files_after": args[5].parse::<u64>().unwrap_or(0), "seconds": args[6].parse::<f64>().unwrap_or(0.0), "crash_artifacts": args[7].parse::<u64>().unwrap_or(0),
                    "note": "same oracle function as the proptest search; fuzz runs are added to evaluations but not to distinct_nontrivial"}));
            }
            if let Some(w) = ev.get("wall_s").and_then(|x| x.as_f64()) {
                ev["wall_s"] = json!(w + args[6].parse::<f64>().unwrap_or(0.0));
            }
            let _ = std::fs::write(&path, serde_json::to_string_pretty(&ev).unwrap());
            0
        }
        _ => usage(),
    };
    std::process::exit(code);
}
