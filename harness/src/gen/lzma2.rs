//! Abstract LZMA2 chunk sequences and their concretisation. The format's
//! sequencing rules and size limits are enforced by construction.

use super::program::*;
use crate::refmodel::enc::{RcEnc, SymEncoder};
use crate::refmodel::lzma2::{Chunk, Reset, MAX_PACKED, MAX_UNPACKED};
use crate::refmodel::model::Props;
use crate::refmodel::program::{Interp, Op};
use proptest::prelude::*;

#[derive(Clone, Debug, PartialEq, Eq)]
pub enum AbsChunk {
    Raw {
        reset_dict: bool,
        /// 0: 1 byte, 1: 2..=100, 2: 65536, 3: 65535, 4: uniform
        len_class: u8,
        len_sel: u16,
        /// 0: noise, 1: constant, 2: short period
        fill: u8,
        seed: u8,
    },
    Lzma {
        /// requested reset class 0..=3 (raised when the format requires more)
        reset: u8,
        props: Props,
        /// begin with a rep / short rep so that inherited (or reset) rep
        /// distances are observable
        lead: u8,
        prog: Vec<AbsOp>,
        /// 0: nothing; k in 1..=32: pad the chunk's output to exactly k * 64 KiB;
        /// 255: instead, append incompressible literals until the compressed
        /// payload is exactly 65536 bytes (the maximum the size field can express)
        exact64k: u8,
    },
}

#[derive(Clone, Copy, Debug)]
pub struct L2Cfg {
    /// cap on the total output of the whole stream
    pub max_total: usize,
    /// cap on ops per chunk
    pub max_chunk_ops: usize,
}

fn raw_len(len_class: u8, len_sel: u16) -> usize {
    match len_class % 5 {
        0 => 1,
        1 => pick(len_sel, 2, 100) as usize,
        2 => 65536,
        3 => 65535,
        _ => pick(len_sel, 1, 65536) as usize,
    }
}

fn raw_fill(n: usize, fill: u8, seed: u8, pos0: usize) -> Vec<u8> {
    let mut v = Vec::with_capacity(n);
    let mut x = 0x2545_F491_4F6C_DD1Du64 ^ ((seed as u64) << 32) ^ pos0 as u64;
    for i in 0..n {
        let b = match fill % 3 {
            0 => {
                x ^= x << 13;
                x ^= x >> 7;
                x ^= x << 17;
                (x >> 24) as u8
            }
            1 => seed,
            _ => seed.wrapping_add((i % 7) as u8),
        };
        v.push(b);
    }
    v
}

/// Concretise an abstract chunk sequence into a legal LZMA2 chunk sequence.
pub fn concretize_chunks(abs: &[AbsChunk], cfg: L2Cfg) -> Vec<Chunk> {
    let mut it = Interp::new(u64::MAX);
    let mut enc = SymEncoder::new(Props::new(0, 0, 0));
    let mut chunks = Vec::new();
    let mut need_props = true;
    let mut need_dict_reset = true;
    for a in abs {
        if it.out.len() >= cfg.max_total {
            break;
        }
        match a {
            AbsChunk::Raw { reset_dict, len_class, len_sel, fill, seed } => {
                let reset_dict = *reset_dict || need_dict_reset;
                let n = raw_len(*len_class, *len_sel).min(cfg.max_total - it.out.len()).max(1);
                let data = raw_fill(n, *fill, *seed, it.out.len());
                if reset_dict {
                    it.reset_dict();
                    enc.reset_dict();
                    need_props = true;
                }
                need_dict_reset = false;
                it.append_raw(&data);
                enc.append_raw(&data);
                chunks.push(Chunk::Raw { reset_dict, data });
            }
            AbsChunk::Lzma { reset, props, lead, prog, exact64k } => {
                // exact-size padding only when the stream budget allows it
                let packed_fill = *exact64k == 255 && cfg.max_total.saturating_sub(it.out.len()) >= 70_000;
                let exact64k = &(if *exact64k != 255 && cfg.max_total.saturating_sub(it.out.len()) >= (*exact64k as usize).min(32) * 65536 {
                    *exact64k
                } else {
                    0
                });
                let mut r = *reset & 3;
                if need_dict_reset {
                    r = 3;
                } else if need_props && r < 2 {
                    r = 2;
                }
                let reset = [Reset::None, Reset::State, Reset::StateProps, Reset::All][r as usize];
                // simulate to honour the packed / unpacked limits
                let mut it2 = it.clone_light();
                let mut enc2 = enc.clone();
                if reset == Reset::All {
                    it2.reset_dict();
                    enc2.reset_dict();
                }
                match reset {
                    Reset::None => {}
                    Reset::State => {
                        let p = enc2.model.props;
                        enc2.model.reset(p);
                        it2.reset_state();
                    }
                    _ => {
                        enc2.model.reset(*props);
                        it2.reset_state();
                    }
                }
                let mut rc = RcEnc::new();
                let mut ops: Vec<Op> = Vec::new();
                let start = it2.out.len();
                let lead_ops: Vec<AbsOp> = match lead % 6 {
                    1 => vec![AbsOp::ShortRep],
                    2 => vec![AbsOp::Rep { idx: 0, lclass: 1, lsel: 7 }],
                    3 => vec![AbsOp::Rep { idx: (*lead >> 4) & 3, lclass: 0, lsel: 0 }],
                    4 => vec![AbsOp::Lit(LitKind::MatchFlip(*lead >> 5), 0x33)],
                    _ => vec![],
                };
                for ab in flatten(&lead_ops).chain(flatten(prog)) {
                    if ops.len() >= cfg.max_chunk_ops {
                        break;
                    }
                    let op = concretize_one(ab, &it2, u64::MAX);
                    let produced = it2.out.len() - start;
                    if produced + op_out_len(&op) > MAX_UNPACKED
                        || (*exact64k == 0 && it2.out.len() + op_out_len(&op) > cfg.max_total.max(start + 1))
                        || (*exact64k > 0 && produced + op_out_len(&op) > (*exact64k as usize).min(32) * 65536)
                    {
                        break;
                    }
                    // a symbol costs at most ~20 bytes; leave that much room
                    if rc.final_len() as usize + 24 > MAX_PACKED {
                        break;
                    }
                    it2.apply(&op).expect("valid by construction");
                    enc2.encode(&mut rc, &op);
                    ops.push(op);
                }
                if *exact64k > 0 {
                    // pad the chunk to exactly k * 64 KiB of output
                    let target = ((*exact64k as usize).min(32) * 65536).min(MAX_UNPACKED);
                    loop {
                        let produced = it2.out.len() - start;
                        if produced >= target || rc.final_len() as usize + 24 > MAX_PACKED {
                            break;
                        }
                        let rem = target - produced;
                        let op = if rem == 1 || rem == 274 {
                            Op::Lit(0x6B)
                        } else if it2.max_dist() >= 1 {
                            Op::Match { dist: 1, len: (rem.min(273)) as u32 }
                        } else {
                            Op::Lit(0x6B)
                        };
                        it2.apply(&op).expect("valid by construction");
                        enc2.encode(&mut rc, &op);
                        ops.push(op);
                    }
                }
                if packed_fill {
                    // grow the payload to exactly MAX_PACKED bytes: noise literals while there is
                    // room, then search for a last symbol that lands exactly on the limit
                    let mut salt = 0u8;
                    while (rc.final_len() as usize) < MAX_PACKED - 3 {
                        let op = concretize_one(&AbsOp::Lit(LitKind::Noise, salt), &it2, u64::MAX);
                        salt = salt.wrapping_add(1);
                        it2.apply(&op).unwrap();
                        enc2.encode(&mut rc, &op);
                        ops.push(op);
                    }
                    let mut guard = 0;
                    while (rc.final_len() as usize) < MAX_PACKED && guard < 64 {
                        guard += 1;
                        let mut best: Option<(Op, RcEnc, SymEncoder)> = None;
                        for cand in 0..=255u8 {
                            let op = Op::Lit(cand);
                            let mut rc3 = rc.clone();
                            let mut enc3 = enc2.clone_model_only();
                            enc3.encode(&mut rc3, &op);
                            let fl = rc3.final_len() as usize;
                            if fl <= MAX_PACKED && fl > rc.final_len() as usize || (fl == rc.final_len() as usize && best.is_none()) {
                                let better = match &best {
                                    None => true,
                                    Some((_, b, _)) => fl > b.final_len() as usize,
                                };
                                if better && fl <= MAX_PACKED {
                                    best = Some((op, rc3, enc3));
                                }
                            }
                        }
                        match best {
                            Some((op, rc3, enc3)) => {
                                it2.apply(&op).unwrap();
                                enc2.adopt_model(enc3, &op);
                                rc = rc3;
                                ops.push(op);
                            }
                            None => break,
                        }
                    }
                }
                if ops.is_empty() {
                    // a compressed chunk needs at least one byte of output
                    let op = Op::Lit(0x41);
                    it2.apply(&op).unwrap();
                    enc2.encode(&mut rc, &op);
                    ops.push(op);
                }
                it.adopt(it2);
                enc = enc2;
                need_dict_reset = false;
                need_props = false;
                chunks.push(Chunk::Lzma {
                    reset,
                    props: *props,
                    ops,
                });
            }
        }
    }
    chunks
}

// Interp helpers that only this generator needs
impl Interp {
    /// clone without paying for a second copy of a huge history when possible
    pub fn clone_light(&self) -> Interp {
        self.clone()
    }
    pub fn adopt(&mut self, other: Interp) {
        *self = other;
    }
}

// ---------------------------------------------------------------------------
// strategies

pub fn abs_chunk(max_ops: usize, max_run: u16) -> impl Strategy<Value = AbsChunk> {
    prop_oneof![
        3 => (any::<bool>(), 0u8..5, any::<u16>(), 0u8..3, any::<u8>()).prop_map(
            |(reset_dict, len_class, len_sel, fill, seed)| AbsChunk::Raw {
                // dictionary resets in mid-stream are legal but should not dominate
                reset_dict: reset_dict && seed % 3 == 0,
                len_class: if len_class >= 2 && seed % 4 != 0 { 1 } else { len_class },
                len_sel,
                fill,
                seed
            }
        ),
        9 => (
            prop_oneof![4 => Just(0u8), 2 => Just(1u8), 2 => Just(2u8), 1 => Just(3u8)],
            props_lzma2(),
            any::<u8>(),
            abs_program(max_ops, max_run)
        )
            .prop_map(|(reset, props, lead, prog)| AbsChunk::Lzma { reset, props, lead, prog, exact64k: 0 }),
    ]
}

/// chunk designed to hit the 2 MiB unpacked limit (long copies)
fn big_unpacked_chunk() -> impl Strategy<Value = AbsChunk> {
    (props_lzma2(), any::<u8>(), 7000u16..9000).prop_map(|(props, b, k)| AbsChunk::Lzma {
        reset: 2,
        props,
        lead: 0,
        exact64k: 0,
        prog: vec![
            AbsOp::Lit(LitKind::Given, b),
            AbsOp::Lit(LitKind::Noise, b),
            AbsOp::Run {
                k,
                op: Box::new(AbsOp::Match { dclass: 6, dsel: b as u16 * 200, lclass: 6, lsel: 0 }),
            },
        ],
    })
}

/// chunk designed to hit the 64 KiB packed limit (incompressible literals)
fn big_packed_chunk() -> impl Strategy<Value = AbsChunk> {
    (props_lzma2(), any::<u8>()).prop_map(|(props, b)| AbsChunk::Lzma {
        reset: 2,
        props,
        lead: 0,
        exact64k: 0,
        prog: vec![
            AbsOp::Run { k: 40000, op: Box::new(AbsOp::Lit(LitKind::Noise, b)) },
            AbsOp::Run { k: 40000, op: Box::new(AbsOp::Lit(LitKind::Noise, b ^ 0x55)) },
        ],
    })
}

/// chunk whose output is EXACTLY k * 64 KiB (k = 1..=32): size fields with an all-ones low half
fn exact_64k_multiple_chunk() -> impl Strategy<Value = AbsChunk> {
    (props_lzma2(), any::<u8>(), prop_oneof![6 => 1u16..=8, 1 => 9u16..=32], 0u8..4, any::<u16>()).prop_map(|(props, b, k, reset, dsel)| AbsChunk::Lzma {
        reset,
        props,
        lead: b,
        exact64k: k as u8,
        prog: vec![
            AbsOp::Lit(LitKind::Given, b),
            AbsOp::Lit(LitKind::Noise, b),
            AbsOp::Lit(LitKind::Noise, b ^ 0x5A),
            AbsOp::Run {
                k: 241 * k,
                op: Box::new(AbsOp::Match { dclass: 6, dsel, lclass: 6, lsel: 0 }),
            },
        ],
    })
}

/// chunk with more than 64 KiB of output but a small payload
fn over_64k_chunk() -> impl Strategy<Value = AbsChunk> {
    (props_lzma2(), any::<u8>(), 250u16..600, 0u8..4).prop_map(|(props, b, k, reset)| AbsChunk::Lzma {
        reset,
        props,
        lead: b,
        exact64k: 0,
        prog: vec![
            AbsOp::Lit(LitKind::Given, b),
            AbsOp::Lit(LitKind::Noise, b),
            AbsOp::Lit(LitKind::Noise, b),
            AbsOp::Run {
                k,
                op: Box::new(AbsOp::Match { dclass: 6, dsel: b as u16 * 100, lclass: 6, lsel: 0 }),
            },
            AbsOp::Lit(LitKind::Given, b),
        ],
    })
}

/// several hundred tiny chunks (chunk counts beyond one byte)
pub fn many_tiny_chunks() -> BoxedStrategy<Vec<AbsChunk>> {
    prop::collection::vec(
        prop_oneof![
            3 => (any::<bool>(), any::<u16>(), 0u8..3, any::<u8>()).prop_map(|(r, len_sel, fill, seed)| AbsChunk::Raw {
                reset_dict: r && seed % 16 == 0,
                len_class: if seed % 5 == 0 { 1 } else { 0 },
                len_sel,
                fill,
                seed
            }),
            2 => (0u8..4, props_lzma2(), any::<u8>(), abs_program(3, 2))
                .prop_map(|(reset, props, lead, prog)| AbsChunk::Lzma { reset, props, lead, prog, exact64k: 0 }),
        ],
        250..700,
    )
    .boxed()
}

/// chunk whose compressed payload is exactly 65536 bytes
pub fn exact_max_packed_chunk() -> impl Strategy<Value = AbsChunk> {
    (props_lzma2(), any::<u8>(), 0u8..4).prop_map(|(props, b, reset)| AbsChunk::Lzma {
        reset,
        props,
        lead: b,
        exact64k: 255,
        prog: vec![AbsOp::Lit(LitKind::Noise, b)],
    })
}

/// chunk with a compressed payload above 32 KiB (size field >= 0x8000)
pub fn over_32k_packed_chunk() -> impl Strategy<Value = AbsChunk> {
    (props_lzma2(), any::<u8>(), 0u8..4, 34_000u16..60_000).prop_map(|(props, b, reset, k)| AbsChunk::Lzma {
        reset,
        props,
        lead: b,
        exact64k: 0,
        prog: vec![AbsOp::Run { k, op: Box::new(AbsOp::Lit(LitKind::Noise, b)) }],
    })
}

pub fn abs_chunks(max_chunks: usize, max_ops: usize, max_run: u16, extremes: bool) -> BoxedStrategy<Vec<AbsChunk>> {
    if extremes {
        prop::collection::vec(
            prop_oneof![
                30 => abs_chunk(max_ops, max_run),
                3 => over_64k_chunk(),
                2 => exact_64k_multiple_chunk(),
                1 => exact_max_packed_chunk(),
                1 => over_32k_packed_chunk(),
                1 => big_unpacked_chunk(),
                1 => big_packed_chunk(),
            ],
            1..=max_chunks,
        )
        .boxed()
    } else {
        prop::collection::vec(
            prop_oneof![
                300 => abs_chunk(max_ops, max_run),
                20 => over_64k_chunk(),
                10 => exact_64k_multiple_chunk(),
                1 => exact_max_packed_chunk(),
                1 => over_32k_packed_chunk(),
            ],
            1..=max_chunks,
        )
        .boxed()
    }
}
