//! Byte-string generators for the "all byte strings" properties: valid streams
//! of every format, structured mutations of them, continuations, random
//! strings; plus chunkings (compositions of the input into write calls).

use super::lzma2::{abs_chunks, concretize_chunks, AbsChunk, L2Cfg};
use super::program::*;
use super::xz::{abs_xz, build_spec, concretize_xz, AbsXz};
use crate::refmodel::enc::{encode_lzma, lzma_header, lzma_header5, SymInfo};
use crate::refmodel::lzma2::write_lzma2;
use crate::refmodel::model::Props;
use crate::refmodel::xz::write_xz;
use proptest::prelude::*;
use serde::{Deserialize, Serialize};

/// serde helper: Vec<u8> as a hex string
pub mod hexser {
    use serde::{Deserialize, Deserializer, Serializer};
    pub fn serialize<S: Serializer>(v: &Vec<u8>, s: S) -> Result<S::Ok, S::Error> {
        s.serialize_str(&crate::runner::hex(v))
    }
    #[derive(serde::Deserialize)]
    #[serde(untagged)]
    enum HexOrSeq {
        S(String),
        V(Vec<u8>),
    }
    pub fn deserialize<'de, D: Deserializer<'de>>(d: D) -> Result<Vec<u8>, D::Error> {
        let s = match HexOrSeq::deserialize(d)? {
            HexOrSeq::V(v) => return Ok(v),
            HexOrSeq::S(s) => s,
        };
        let s = s.trim();
        let mut out = Vec::with_capacity(s.len() / 2);
        let b = s.as_bytes();
        let mut i = 0;
        while i + 1 < b.len() {
            let h = (b[i] as char).to_digit(16).ok_or_else(|| serde::de::Error::custom("hex"))?;
            let l = (b[i + 1] as char).to_digit(16).ok_or_else(|| serde::de::Error::custom("hex"))?;
            out.push((h * 16 + l) as u8);
            i += 2;
        }
        Ok(out)
    }
}

#[derive(Clone, Debug)]
pub struct AbsLzmaFile {
    pub props: Props,
    pub dict: u32,
    pub prog: Vec<AbsOp>,
    /// 0,1: marker (size unknown) ; 2,3: size ; 4: size + marker
    pub term_sel: u8,
    /// 13-byte header or 5-byte header
    pub h13: bool,
    pub max_out: usize,
}

#[derive(Clone, Debug)]
pub struct LzmaFile {
    pub bytes: Vec<u8>,
    pub header_len: usize,
    /// absolute offsets (in `bytes`) at which each symbol's bytes end
    pub sym_ends: Vec<usize>,
    /// per-symbol (consumed within payload, produced)
    pub table: Vec<SymInfo>,
    pub output: Vec<u8>,
    pub has_marker: bool,
    pub has_size: bool,
    pub props: Props,
    pub dict: u32,
}

pub fn build_lzma_file(a: &AbsLzmaFile) -> LzmaFile {
    let eff = (a.dict as u64).max(4096);
    let ops = concretize(
        &a.prog,
        ConcCfg {
            dict: eff,
            max_out: a.max_out,
            max_ops: 60_000,
        },
    );
    let (marker, has_size) = match a.term_sel % 5 {
        0 | 1 => (Some(2), false),
        2 | 3 => (None, true),
        _ => (Some(2), true),
    };
    let enc = encode_lzma(a.props, &ops, marker);
    let size = if has_size { Some(enc.hist.len() as u64) } else { None };
    let mut bytes = if a.h13 {
        lzma_header(a.props, a.dict, size)
    } else {
        lzma_header5(a.props, a.dict)
    };
    let header_len = bytes.len();
    bytes.extend_from_slice(&enc.payload);
    let sym_ends = enc.table.iter().map(|t| header_len + t.consumed as usize).collect();
    LzmaFile {
        bytes,
        header_len,
        sym_ends,
        table: enc.table,
        output: enc.hist,
        has_marker: marker.is_some(),
        has_size,
        props: a.props,
        dict: a.dict,
    }
}

pub fn abs_lzma_file(max_ops: usize, max_run: u16, max_out: usize) -> impl Strategy<Value = AbsLzmaFile> {
    (
        props_any(),
        dict_header(),
        abs_program(max_ops, max_run),
        any::<u8>(),
        prop::bool::weighted(0.8),
    )
        .prop_map(move |(props, dict, prog, term_sel, h13)| AbsLzmaFile {
            props,
            dict,
            prog,
            term_sel,
            h13,
            max_out,
        })
}

// ---------------------------------------------------------------------------
// byte-level mutations

#[derive(Clone, Debug, PartialEq, Eq)]
pub enum AbsMut {
    Flip { pos: u16, bit: u8 },
    Set { pos: u16, val: u8 },
    /// overwrite 4 or 8 bytes with a field extreme
    Extreme { pos: u16, which: u8 },
    Trunc { pos: u16 },
    Append { data: Vec<u8> },
    /// copy the slice [a, b) to position `at` (insert)
    Dup { a: u16, b: u16, at: u16 },
    /// delete the slice [a, b)
    Cut { a: u16, b: u16 },
}

fn at(sel: u16, n: usize) -> usize {
    if n == 0 {
        0
    } else {
        ((sel as u64 * n as u64) >> 16) as usize
    }
}

/// Apply mutations; returns the mutated bytes and the smallest offset touched
/// (bytes before it are unchanged).
pub fn apply_muts(base: &[u8], muts: &[AbsMut]) -> (Vec<u8>, usize) {
    let mut v = base.to_vec();
    let mut first = usize::MAX;
    for m in muts {
        match m {
            AbsMut::Flip { pos, bit } => {
                if !v.is_empty() {
                    let p = at(*pos, v.len());
                    v[p] ^= 1 << (bit & 7);
                    first = first.min(p);
                }
            }
            AbsMut::Set { pos, val } => {
                if !v.is_empty() {
                    let p = at(*pos, v.len());
                    v[p] = *val;
                    first = first.min(p);
                }
            }
            AbsMut::Extreme { pos, which } => {
                if !v.is_empty() {
                    let p = at(*pos, v.len());
                    let pat: Vec<u8> = match which % 8 {
                        0 => vec![0; 4],
                        1 => vec![0xFF; 4],
                        2 => vec![0, 0, 0, 0x80],
                        3 => vec![0xFF, 0xFF, 0xFF, 0x7F],
                        4 => vec![0; 8],
                        5 => vec![0xFF; 8],
                        6 => vec![0, 0, 0, 0, 0, 0, 0, 0x80],
                        _ => vec![0xFF, 0xFF, 0xFF, 0xFF, 0x7F],
                    };
                    for (i, b) in pat.iter().enumerate() {
                        if p + i < v.len() {
                            v[p + i] = *b;
                        }
                    }
                    first = first.min(p);
                }
            }
            AbsMut::Trunc { pos } => {
                let p = at(*pos, v.len() + 1);
                v.truncate(p);
                first = first.min(p);
            }
            AbsMut::Append { data } => {
                first = first.min(v.len());
                v.extend_from_slice(data);
            }
            AbsMut::Dup { a, b, at: t } => {
                if !v.is_empty() {
                    let (mut x, mut y) = (at(*a, v.len()), at(*b, v.len() + 1));
                    if x > y {
                        std::mem::swap(&mut x, &mut y);
                    }
                    let y = y.min(x + 4096);
                    let slice = v[x..y].to_vec();
                    let p = at(*t, v.len() + 1);
                    v.splice(p..p, slice);
                    first = first.min(p);
                }
            }
            AbsMut::Cut { a, b } => {
                if !v.is_empty() {
                    let (mut x, mut y) = (at(*a, v.len()), at(*b, v.len() + 1));
                    if x > y {
                        std::mem::swap(&mut x, &mut y);
                    }
                    v.drain(x..y);
                    first = first.min(x);
                }
            }
        }
    }
    (v, first)
}

pub fn abs_mut() -> impl Strategy<Value = AbsMut> {
    prop_oneof![
        6 => (any::<u16>(), 0u8..8).prop_map(|(pos, bit)| AbsMut::Flip { pos, bit }),
        4 => (any::<u16>(), prop::sample::select(vec![0u8, 1, 0x7F, 0x80, 0xFF, 0x5D, 0xE0, 0x21]))
            .prop_map(|(pos, val)| AbsMut::Set { pos, val }),
        2 => (any::<u16>(), any::<u8>()).prop_map(|(pos, val)| AbsMut::Set { pos, val }),
        3 => (any::<u16>(), 0u8..8).prop_map(|(pos, which)| AbsMut::Extreme { pos, which }),
        // early positions matter: headers live there
        3 => (0u16..2000, 0u8..8).prop_map(|(pos, which)| AbsMut::Extreme { pos, which }),
        3 => (0u16..3000, 0u8..8).prop_map(|(pos, bit)| AbsMut::Flip { pos, bit }),
        4 => any::<u16>().prop_map(|pos| AbsMut::Trunc { pos }),
        3 => prop::collection::vec(any::<u8>(), 1..12).prop_map(|data| AbsMut::Append { data }),
        1 => prop::collection::vec(Just(0u8), 1..9).prop_map(|data| AbsMut::Append { data }),
        2 => (any::<u16>(), any::<u16>(), any::<u16>()).prop_map(|(a, b, at)| AbsMut::Dup { a, b, at }),
        2 => (any::<u16>(), any::<u16>()).prop_map(|(a, b)| AbsMut::Cut { a, b }),
    ]
}

pub fn abs_muts(max: usize) -> impl Strategy<Value = Vec<AbsMut>> {
    prop_oneof![
        3 => Just(vec![]),
        6 => prop::collection::vec(abs_mut(), 1..=1),
        3 => prop::collection::vec(abs_mut(), 2..=max.max(2)),
    ]
}

// ---------------------------------------------------------------------------
// bases of other formats (for C07 / C13)

#[derive(Clone, Debug)]
pub enum AbsBase {
    Lzma(AbsLzmaFile),
    Lzma2(Vec<AbsChunk>),
    Xz(AbsXz),
    Random(Vec<u8>),
}

pub fn build_base(b: &AbsBase) -> Vec<u8> {
    match b {
        AbsBase::Lzma(a) => build_lzma_file(a).bytes,
        AbsBase::Lzma2(ch) => {
            let chunks = concretize_chunks(
                ch,
                L2Cfg {
                    max_total: 100_000,
                    max_chunk_ops: 5000,
                },
            );
            write_lzma2(&chunks, false).map(|e| e.bytes).unwrap_or_default()
        }
        AbsBase::Xz(x) => {
            let c = concretize_xz(x);
            match build_spec(&c) {
                Ok(spec) => write_xz(&spec, None).bytes,
                Err(_) => vec![],
            }
        }
        AbsBase::Random(v) => v.clone(),
    }
}

pub fn abs_base_lzma2(max_chunks: usize, max_ops: usize) -> BoxedStrategy<AbsBase> {
    abs_chunks(max_chunks, max_ops, 20, false).prop_map(AbsBase::Lzma2).boxed()
}

pub fn abs_base_xz(max_blocks: usize) -> BoxedStrategy<AbsBase> {
    abs_xz(max_blocks, 2, 12, 20_000).prop_map(AbsBase::Xz).boxed()
}

pub fn random_bytes(max: usize) -> impl Strategy<Value = Vec<u8>> {
    prop_oneof![
        3 => prop::collection::vec(any::<u8>(), 0..24),
        2 => prop::collection::vec(any::<u8>(), 24..=max.max(25)),
        1 => prop::collection::vec(prop::sample::select(vec![0u8, 0xFF, 0x5D, 0x80, 1]), 0..64),
    ]
}

// ---------------------------------------------------------------------------
// chunkings

#[derive(Clone, Debug, PartialEq, Eq)]
pub enum AbsChunking {
    AllAtOnce,
    OneByte,
    Uniform(u16),
    /// arbitrary piece sizes (0 allowed)
    Random(Vec<u16>),
    /// cut at header offsets and around symbol boundaries; selectors choose which
    Targeted(Vec<(u16, u8)>),
}

pub fn abs_chunking() -> impl Strategy<Value = AbsChunking> {
    prop_oneof![
        1 => Just(AbsChunking::AllAtOnce),
        3 => Just(AbsChunking::OneByte),
        3 => (1u16..40).prop_map(AbsChunking::Uniform),
        4 => prop::collection::vec(prop_oneof![1 => Just(0u16), 6 => 1u16..24, 2 => 24u16..300], 1..40)
            .prop_map(AbsChunking::Random),
        1 => prop::collection::vec(prop_oneof![2 => 1u16..24, 3 => 300u16..9000, 1 => 9000u16..65535], 1..6)
            .prop_map(AbsChunking::Random),
        5 => prop::collection::vec((any::<u16>(), 0u8..6), 1..12).prop_map(AbsChunking::Targeted),
    ]
}

/// Turn an abstract chunking into piece sizes that sum to `n` (empty pieces
/// allowed). `sym_ends`: offsets of symbol ends valid for targeting.
pub fn concretize_chunking(c: &AbsChunking, n: usize, header_len: usize, sym_ends: &[usize]) -> Vec<usize> {
    let mut pieces: Vec<usize> = Vec::new();
    match c {
        AbsChunking::AllAtOnce => pieces.push(n),
        AbsChunking::OneByte => pieces.extend(std::iter::repeat(1).take(n)),
        AbsChunking::Uniform(k) => {
            let k = (*k as usize).max(1);
            let mut left = n;
            while left > 0 {
                let p = k.min(left);
                pieces.push(p);
                left -= p;
            }
        }
        AbsChunking::Random(v) => {
            let mut left = n;
            let mut i = 0;
            while left > 0 {
                let p = (v[i % v.len()] as usize).min(left);
                pieces.push(p);
                left -= p;
                i += 1;
                if i >= v.len() && v.iter().all(|&x| x == 0) {
                    pieces.push(left);
                    break;
                }
            }
        }
        AbsChunking::Targeted(sels) => {
            let mut cuts: Vec<usize> = Vec::new();
            for (sel, kind) in sels {
                let cut = match kind % 6 {
                    // inside the header / preamble: offsets 1..header_len+5
                    0 | 1 => 1 + at(*sel, header_len + 5),
                    // around a symbol end: -1, 0, +1
                    k @ (2 | 3 | 4) => {
                        if sym_ends.is_empty() {
                            at(*sel, n + 1)
                        } else {
                            let e = sym_ends[at(*sel, sym_ends.len())];
                            (e + (k as usize - 2)).saturating_sub(1)
                        }
                    }
                    _ => at(*sel, n + 1),
                };
                if cut > 0 && cut < n {
                    cuts.push(cut);
                }
            }
            cuts.sort_unstable();
            cuts.dedup();
            let mut prev = 0;
            for c in cuts {
                pieces.push(c - prev);
                prev = c;
            }
            pieces.push(n - prev);
        }
    }
    if pieces.is_empty() {
        pieces.push(n);
    }
    pieces
}

#[derive(Clone, Debug, PartialEq, Eq, Hash, Serialize, Deserialize)]
pub struct BytesCase {
    #[serde(with = "hexser")]
    pub input: Vec<u8>,
}
