//! Abstract .xz files.

use super::lzma2::*;
use crate::refmodel::lzma2::{write_lzma2, Chunk};
use crate::refmodel::xz::{XzBlock, XzSpec};
use proptest::prelude::*;
use serde::{Deserialize, Serialize};

#[derive(Clone, Debug)]
pub struct AbsBlock {
    pub has_packed: bool,
    pub has_unpacked: bool,
    pub extra_pad4: u8,
    pub dict_extra: u8,
    pub chunks: Vec<AbsChunk>,
}

#[derive(Clone, Debug)]
pub struct AbsXz {
    pub check: u8,
    pub blocks: Vec<AbsBlock>,
    pub max_block_out: usize,
}

/// Concrete, replayable description of a well-formed .xz file.
#[derive(Clone, Debug, PartialEq, Eq, Hash, Serialize, Deserialize)]
pub struct XzCase {
    pub check: u8,
    pub blocks: Vec<XzCaseBlock>,
}

#[derive(Clone, Debug, PartialEq, Eq, Hash, Serialize, Deserialize)]
pub struct XzCaseBlock {
    pub has_packed: bool,
    pub has_unpacked: bool,
    pub extra_pad4: u8,
    pub dict_extra: u8,
    pub chunks: Vec<Chunk>,
}

pub fn concretize_xz(a: &AbsXz) -> XzCase {
    XzCase {
        check: a.check,
        blocks: a
            .blocks
            .iter()
            .map(|b| XzCaseBlock {
                has_packed: b.has_packed,
                has_unpacked: b.has_unpacked,
                extra_pad4: b.extra_pad4,
                dict_extra: b.dict_extra,
                chunks: concretize_chunks(
                    &b.chunks,
                    L2Cfg {
                        max_total: a.max_block_out,
                        max_chunk_ops: 90_000,
                    },
                ),
            })
            .collect(),
    }
}

/// smallest LZMA2 dictionary property byte whose size is >= n
pub fn dict_prop_for(n: usize) -> u8 {
    for p in 0u8..=40 {
        let size: u64 = if p == 40 {
            0xFFFF_FFFF
        } else {
            (2u64 | (p as u64 & 1)) << (p / 2 + 11)
        };
        if size >= n as u64 {
            return p;
        }
    }
    40
}

/// Build the writer spec (encodes every block's LZMA2 payload).
pub fn build_spec(c: &XzCase) -> Result<XzSpec, String> {
    let mut blocks = Vec::new();
    for b in &c.blocks {
        let enc = write_lzma2(&b.chunks, false)?;
        // mostly the smallest sufficient property (+0..5); sometimes the largest legal values
        let p = match b.dict_extra {
            0..=5 => (dict_prop_for(enc.output.len()) + b.dict_extra).min(30),
            6 => 31,
            7 => 35,
            8 => 37,
            9 => 38,
            10 => 39,
            _ => 40,
        };
        blocks.push(XzBlock {
            has_packed: b.has_packed,
            has_unpacked: b.has_unpacked,
            extra_pad4: b.extra_pad4,
            dict_prop: p,
            payload: enc.bytes,
            content: enc.output,
        });
    }
    Ok(XzSpec {
        check: c.check,
        blocks,
    })
}

fn abs_block(max_chunks: usize, max_ops: usize) -> impl Strategy<Value = AbsBlock> {
    (
        any::<bool>(),
        any::<bool>(),
        prop_oneof![6 => Just(0u8), 3 => 1u8..4, 1 => 4u8..=255],
        prop_oneof![8 => 0u8..6, 1 => 6u8..14],
        prop_oneof![
            24 => abs_chunks(max_chunks, max_ops, 30, false),
            // a block whose LZMA2 stream is just the end byte (empty content)
            1 => Just(vec![]).boxed(),
        ],
    )
        .prop_map(|(has_packed, has_unpacked, extra_pad4, dict_extra, chunks)| AbsBlock {
            has_packed,
            has_unpacked,
            extra_pad4,
            dict_extra,
            chunks,
        })
}

/// a block whose payload is one or more big raw chunks (sizes >= 16 KiB give
/// 3-byte multibyte integers; several of them 4-byte unpadded sizes)
fn big_block() -> impl Strategy<Value = AbsBlock> {
    (any::<bool>(), any::<bool>(), 1usize..40, any::<u8>(), any::<u16>()).prop_map(
        |(has_packed, has_unpacked, n, seed, sel)| AbsBlock {
            has_packed,
            has_unpacked,
            extra_pad4: 0,
            dict_extra: 0,
            chunks: (0..n)
                .map(|i| AbsChunk::Raw {
                    reset_dict: i == 0,
                    len_class: if i + 1 == n { 4 } else { 2 },
                    len_sel: sel,
                    fill: 1,
                    seed,
                })
                .collect(),
        },
    )
}

/// 130..400 tiny blocks: the index record count needs a 2-byte integer
pub fn abs_xz_many_blocks() -> BoxedStrategy<AbsXz> {
    (
        prop::sample::select(vec![0u8, 1, 4]),
        prop::collection::vec(
            (any::<bool>(), any::<bool>(), 0u8..2, any::<u8>(), any::<u16>()).prop_map(|(has_packed, has_unpacked, extra_pad4, seed, len_sel)| AbsBlock {
                has_packed,
                has_unpacked,
                extra_pad4,
                dict_extra: 0,
                chunks: vec![AbsChunk::Raw { reset_dict: true, len_class: if seed % 4 == 0 { 1 } else { 0 }, len_sel, fill: seed % 3, seed }],
            }),
            130..400,
        ),
    )
        .prop_map(|(check, blocks)| AbsXz { check, blocks, max_block_out: 1000 })
        .boxed()
}

pub fn abs_xz(max_blocks: usize, max_chunks: usize, max_ops: usize, max_block_out: usize) -> BoxedStrategy<AbsXz> {
    (
        prop::sample::select(vec![0u8, 1, 4]),
        prop_oneof![
            1 => Just(vec![]).boxed(),
            12 => prop::collection::vec(
                prop_oneof![20 => abs_block(max_chunks, max_ops).boxed(), 1 => big_block().boxed()],
                1..=max_blocks
            ).boxed(),
        ],
    )
        .prop_map(move |(check, blocks)| AbsXz {
            check,
            blocks,
            max_block_out,
        })
        .boxed()
}
