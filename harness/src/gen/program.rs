//! Abstract, shrinkable symbol programs and their concretisation.
//!
//! Every sub-vector of an abstract program concretises to a *valid* program:
//! selectors are mapped monotonically onto what is legal at that point, and
//! impossible ops degrade to literals. So proptest's default shrinking works.

use crate::refmodel::model::Props;
use crate::refmodel::program::{Interp, Op, MAX_LEN};
use proptest::prelude::*;

#[derive(Clone, Copy, Debug, PartialEq, Eq)]
pub enum LitKind {
    /// the given byte
    Given,
    /// byte at rep0 distance (matched literal: all 8 bits follow the match byte)
    MatchByte,
    /// byte at rep0 distance with one bit flipped (mismatch at that bit)
    MatchFlip(u8),
    /// previous byte
    Prev,
    /// pseudo-random byte derived from the output position (incompressible runs)
    Noise,
}

#[derive(Clone, Debug, PartialEq, Eq)]
pub enum AbsOp {
    Lit(LitKind, u8),
    Match { dclass: u8, dsel: u16, lclass: u8, lsel: u16 },
    ShortRep,
    Rep { idx: u8, lclass: u8, lsel: u16 },
    /// repeat `op` k times (trains probabilities, inflates output)
    Run { k: u16, op: Box<AbsOp> },
}

/// monotone map of a 16-bit selector onto lo..=hi
pub fn pick(sel: u16, lo: u64, hi: u64) -> u64 {
    debug_assert!(lo <= hi);
    lo + (((sel as u128) * ((hi - lo + 1) as u128)) >> 16) as u64
}

pub const N_DCLASS: u8 = 7;
pub const N_LCLASS: u8 = 7;

pub fn len_of(lclass: u8, lsel: u16) -> u32 {
    match lclass % N_LCLASS {
        0 => 2,
        1 => pick(lsel, 3, 9) as u32,
        2 => 10,
        3 => pick(lsel, 11, 17) as u32,
        4 => 18,
        5 => pick(lsel, 19, 272) as u32,
        _ => MAX_LEN,
    }
}

pub fn len_class(len: u32) -> usize {
    match len {
        2 => 0,
        3..=9 => 1,
        10 => 2,
        11..=17 => 3,
        18 => 4,
        19..=272 => 5,
        _ => 6,
    }
}

/// choose a 1-based distance in 1..=maxd according to the class
fn dist_of(dclass: u8, dsel: u16, maxd: u64, produced: u64, dict: u64) -> u64 {
    debug_assert!(maxd >= 1);
    match dclass % N_DCLASS {
        0 => 1,
        1 => pick(dsel, 2, 4).min(maxd),
        2 => {
            // slot boundaries: zero-based distance 2^k - 1, 2^k, 2^k + 1
            let kmax = 63 - maxd.leading_zeros() as u64; // floor(log2(maxd))
            if kmax < 2 {
                return maxd;
            }
            let k = pick(dsel >> 2, 2, kmax.min(31));
            let d0 = (1u64 << k) + (dsel as u64 & 3) - 1; // 2^k-1 ..= 2^k+2
            (d0 + 1).min(maxd)
        }
        3 => maxd,
        4 => pick(dsel, 1, maxd),
        5 => {
            // source before the wrap point of a circular window of size dict
            let cursor = if dict > 0 { produced % dict } else { 0 };
            if produced >= dict && cursor + 1 <= maxd {
                pick(dsel, cursor + 1, maxd)
            } else {
                pick(dsel, 1, maxd)
            }
        }
        _ => pick(dsel, 1, maxd.min(64)),
    }
}

#[derive(Clone, Copy, Debug)]
pub struct ConcCfg {
    pub dict: u64,
    /// stop appending ops once the output would exceed this
    pub max_out: usize,
    /// stop after this many concrete ops
    pub max_ops: usize,
}

/// Concretise; the result is always a valid program for a dictionary of `cfg.dict`.
pub fn concretize(abs: &[AbsOp], cfg: ConcCfg) -> Vec<Op> {
    let mut it = Interp::new(cfg.dict);
    let mut ops: Vec<Op> = Vec::new();
    for a in flatten(abs) {
        if ops.len() >= cfg.max_ops {
            break;
        }
        let op = concretize_one(a, &it, cfg.dict);
        if it.out.len() + op_out_len(&op) > cfg.max_out {
            break;
        }
        it.apply(&op).expect("concretised op must be valid");
        ops.push(op);
    }
    ops
}

pub fn op_out_len(op: &Op) -> usize {
    match op {
        Op::Lit(_) | Op::ShortRep => 1,
        Op::Match { len, .. } | Op::Rep { len, .. } => *len as usize,
    }
}

/// Expand `Run`s lazily into a flat sequence of base ops.
pub fn flatten<'a>(abs: &'a [AbsOp]) -> Box<dyn Iterator<Item = &'a AbsOp> + 'a> {
    Box::new(abs.iter().flat_map(|a| -> Box<dyn Iterator<Item = &'a AbsOp> + 'a> {
        match a {
            AbsOp::Run { k, op } => Box::new(std::iter::repeat(&**op).take(*k as usize).flat_map(
                |o| -> Box<dyn Iterator<Item = &'a AbsOp> + 'a> {
                    match o {
                        AbsOp::Run { .. } => flatten(std::slice::from_ref(o)),
                        _ => Box::new(std::iter::once(o)),
                    }
                },
            )),
            _ => Box::new(std::iter::once(a)),
        }
    }))
}

fn noise(pos: u64) -> u8 {
    let mut x = pos.wrapping_mul(0x9E37_79B9_7F4A_7C15) ^ 0xD6E8_FEB8_6659_FD93;
    x ^= x >> 32;
    x = x.wrapping_mul(0xD6E8_FEB8_6659_FD93);
    x ^= x >> 29;
    (x >> 11) as u8
}

/// The concrete op a base abstract op stands for in the interpreter state `it`
/// (always valid there). `dict` is the window size used for wrap targeting.
pub fn concretize_one(a: &AbsOp, it: &Interp, dict: u64) -> Op {
    match a {
        AbsOp::Run { op, .. } => concretize_one(op, it, dict),
        AbsOp::Lit(kind, b) => {
            let rep_d = it.reps[0] as u64 + 1;
            let mb = if it.dist_ok(rep_d) {
                it.out[it.out.len() - rep_d as usize]
            } else {
                *b
            };
            let byte = match kind {
                LitKind::Given => *b,
                LitKind::MatchByte => mb,
                LitKind::MatchFlip(i) => mb ^ (1 << (i & 7)),
                LitKind::Prev => {
                    if it.avail() > 0 {
                        it.out[it.out.len() - 1]
                    } else {
                        *b
                    }
                }
                LitKind::Noise => noise(it.out.len() as u64) ^ *b,
            };
            Op::Lit(byte)
        }
        AbsOp::Match { dclass, dsel, lclass, lsel } => {
            let maxd = it.max_dist();
            if maxd == 0 {
                Op::Lit(*dsel as u8)
            } else {
                let dist = dist_of(*dclass, *dsel, maxd, it.avail(), dict);
                Op::Match {
                    dist: dist as u32,
                    len: len_of(*lclass, *lsel),
                }
            }
        }
        AbsOp::ShortRep => {
            if it.dist_ok(it.reps[0] as u64 + 1) {
                Op::ShortRep
            } else {
                Op::Lit(0x5A)
            }
        }
        AbsOp::Rep { idx, lclass, lsel } => {
            let i = (*idx & 3) as usize;
            if it.dist_ok(it.reps[i] as u64 + 1) {
                Op::Rep {
                    idx: i as u8,
                    len: len_of(*lclass, *lsel),
                }
            } else {
                Op::Lit(*lsel as u8)
            }
        }
    }
}

// ---------------------------------------------------------------------------
// strategies

fn lit_kind() -> impl Strategy<Value = LitKind> {
    prop_oneof![
        6 => Just(LitKind::Given),
        2 => Just(LitKind::MatchByte),
        3 => (0u8..8).prop_map(LitKind::MatchFlip),
        1 => Just(LitKind::Prev),
        1 => Just(LitKind::Noise),
    ]
}

fn lit_byte() -> impl Strategy<Value = u8> {
    prop_oneof![
        6 => any::<u8>(),
        1 => Just(0u8),
        1 => Just(0xFFu8),
        1 => prop_oneof![Just(b'a'), Just(b'b'), Just(b'c')],
    ]
}

fn base_op() -> impl Strategy<Value = AbsOp> {
    prop_oneof![
        8 => (lit_kind(), lit_byte()).prop_map(|(k, b)| AbsOp::Lit(k, b)),
        7 => (0..N_DCLASS, any::<u16>(), 0..N_LCLASS, any::<u16>()).prop_map(
            |(dclass, dsel, lclass, lsel)| AbsOp::Match { dclass, dsel, lclass, lsel }
        ),
        2 => Just(AbsOp::ShortRep),
        5 => (0u8..4, 0..N_LCLASS, any::<u16>())
            .prop_map(|(idx, lclass, lsel)| AbsOp::Rep { idx, lclass, lsel }),
    ]
}

/// One abstract op, possibly a Run. `max_run` bounds the repeat count.
pub fn abs_op(max_run: u16) -> impl Strategy<Value = AbsOp> {
    prop_oneof![
        20 => base_op(),
        1 => (1..=max_run.max(1), base_op()).prop_map(|(k, op)| AbsOp::Run { k, op: Box::new(op) }),
    ]
}

pub fn abs_program(max_ops: usize, max_run: u16) -> impl Strategy<Value = Vec<AbsOp>> {
    prop::collection::vec(abs_op(max_run), 0..=max_ops)
}

/// All 225 property settings, weighted so that each interesting class is common.
pub fn props_any() -> impl Strategy<Value = Props> {
    prop_oneof![
        3 => Just(Props::new(3, 0, 2)),
        4 => (0u32..=4, 0u32..=4, 0u32..=4)
            .prop_map(|(lc, lp, pb)| Props::new(lc.min(4 - lp.min(4)), lp, pb)),
        4 => (5u32..=8, 0u32..=4, 0u32..=4).prop_map(|(lc, lp, pb)| Props::new(lc, lp, pb)),
        2 => (0u32..=4).prop_map(|pb| Props::new(8, 4, pb)),
        2 => (0u32..=8, 0u32..=4).prop_map(|(lc, pb)| Props::new(lc, 4, pb)),
        2 => (0u32..=8, 0u32..=4, prop_oneof![Just(0u32), Just(4u32)])
            .prop_map(|(lc, lp, pb)| Props::new(lc, lp, pb)),
        2 => (0u32..=4, 0u32..=4).prop_map(|(lp, pb)| Props::new(0, lp, pb)),
        3 => (0u32..=8, 0u32..=4, 0u32..=4).prop_map(|(lc, lp, pb)| Props::new(lc, lp, pb)),
    ]
}

/// Property settings legal in LZMA2 (lc + lp <= 4).
pub fn props_lzma2() -> impl Strategy<Value = Props> {
    prop_oneof![
        3 => Just(Props::new(3, 0, 2)),
        6 => (0u32..=4, 0u32..=4, 0u32..=4).prop_map(|(a, b, pb)| {
            let lp = b;
            let lc = a.min(4 - lp);
            Props::new(lc, lp, pb)
        }),
        2 => (0u32..=4, 0u32..=4).prop_map(|(lp, pb)| Props::new(4 - lp, lp, pb)),
        1 => (0u32..=4).prop_map(|pb| Props::new(0, 0, pb)),
    ]
}

/// Dictionary sizes for the raw decoder (any value >= 1 is accepted).
pub fn dict_raw() -> impl Strategy<Value = u32> {
    prop_oneof![
        6 => prop::sample::select(vec![1u32, 2, 3, 4, 5, 7, 8, 16, 17, 63, 64, 255, 4095]),
        2 => 1u32..=300,
        2 => prop::sample::select(vec![4096u32, 4097, 65536, 1 << 23]),
    ]
}

/// Dictionary-size header field values (anything below 4096 behaves as 4096).
pub fn dict_header() -> impl Strategy<Value = u32> {
    prop_oneof![
        2 => prop::sample::select(vec![0u32, 1, 4095]),
        4 => prop::sample::select(vec![4096u32, 4097, 5000, 8192]),
        3 => prop::sample::select(vec![65536u32, 1 << 23, 1 << 31, 0xFFFF_FFFF]),
    ]
}
