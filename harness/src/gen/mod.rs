//! proptest strategies (constructive, shrinkable).
pub mod program;
