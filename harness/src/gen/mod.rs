//! proptest strategies (constructive, shrinkable).
pub mod program;
pub mod lzma2;
pub mod xz;
pub mod bytes;
