use proptest::strategy::{Strategy, ValueTree};
use proptest::test_runner::{Config, RngSeed, TestRunner};
use verif::gen::lzma2::*;
use verif::refmodel::lzma2::write_lzma2;
fn main() {
    let mut runner = TestRunner::new(Config { rng_seed: RngSeed::Fixed(1), failure_persistence: None, ..Config::default() });
    let s = exact_max_packed_chunk();
    for _ in 0..6 {
        let v = s.new_tree(&mut runner).unwrap().current();
        let c = concretize_chunks(&[v], L2Cfg { max_total: 400_000, max_chunk_ops: 90_000 });
        let e = write_lzma2(&c, false).unwrap();
        println!("chunks {} payload {} unpacked {}", c.len(), e.layout[0].payload_len, e.layout[0].unpacked);
    }
}
