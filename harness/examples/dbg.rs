use proptest::strategy::{Strategy, ValueTree};
use proptest::test_runner::{Config, RngSeed, TestRunner};
use verif::gen::lzma2::*;
fn main() {
    let mut runner = TestRunner::new(Config { rng_seed: RngSeed::Fixed(1), failure_persistence: None, ..Config::default() });
    let s = many_tiny_chunks();
    for _ in 0..5 {
        let v = s.new_tree(&mut runner).unwrap().current();
        let c = concretize_chunks(&v, L2Cfg { max_total: 200_000, max_chunk_ops: 90_000 });
        println!("abs {} -> concrete {}", v.len(), c.len());
    }
}
