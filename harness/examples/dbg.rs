fn main(){}
